#!/bin/bash
# usage: tools/sweep.sh <quick|thorough> <seed> [Cxx ...]   -> one summary line per check
cd "$(dirname "$0")/.."
tier="$1"; seed="$2"; shift 2
props="$@"; [ -z "$props" ] && props="C01 C02 C03 C04 C05 C06 C07 C08 C09 C10 C11 C12 C13 C14 C15 C16 C17 C18 C19 C20"
for p in $props; do
  t0=$(date +%s)
  VERIF_SEED=$seed ./check $p $tier > /tmp/sweep-$p-$tier-$seed.log 2>&1; rc=$?
  t1=$(date +%s)
  echo "$p $tier seed=$seed exit=$rc $((t1-t0))s $(grep -c '^KNOWN-FINDING' /tmp/sweep-$p-$tier-$seed.log)kf $(grep -E 'VIOLATION|INCONCLUSIVE' /tmp/sweep-$p-$tier-$seed.log | head -2 | cut -c1-200 | tr '\n' ' ')"
done
