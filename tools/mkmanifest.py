#!/usr/bin/env python3
"""Regenerate /verif/MANIFEST.json from the check modules (harness/checks/cXX.py: MANIFEST dict)
and validate it against the schema.  Properties without a registered check go to
not_applicable with the reason given in NOT_CLAIMED (or 'not built yet')."""
import importlib
import json
import os
import sys

VERIF = os.path.dirname(os.path.dirname(os.path.abspath(__file__)))
sys.path.insert(0, VERIF)
sys.path.append(os.path.join(VERIF, ".deps"))
os.environ.setdefault("NGS_VERIF_REPO", "/repo")

NOT_CLAIMED = {}

props = [json.loads(l) for l in open(os.path.join(VERIF, "properties.jsonl"))]
checks, na = [], []
for p in props:
    pid = p["id"]
    path = os.path.join(VERIF, "harness", "checks", pid.lower() + ".py")
    mod = None
    if os.path.exists(path):
        mod = importlib.import_module("harness.checks." + pid.lower())
    if mod is None or not getattr(mod, "MANIFEST", None):
        na.append({"property_id": pid, "reason": NOT_CLAIMED.get(
            pid, "check not built yet (build phase in progress); runtime monitoring applies "
                 "and the check will be claimed once calibrated")})
        continue
    m = mod.MANIFEST
    checks.append({
        "property_id": pid,
        "quick_cmd": f"./check {pid} quick",
        "thorough_cmd": f"./check {pid} thorough",
        "evidence_file": f"/verif/evidence/{pid}.json",
        "replay_cmd_template": f"./check {pid} --replay {{path}}",
        "engine": "ngs-runtime-monitors",
        "level_claimed": {"category": mod.LEVEL, "text": m["level_text"],
                          "design_ref": m.get("design_ref", "DESIGN.md section 2")},
        "level_note": m["level_note"],
        "technique": m["technique"],
    })
manifest = {
    "version": 1,
    "setup_cmd": "./setup.sh",
    "hooks": {
        "guard": "NGS_VERIF_MONITORS",
        "enable": "no source hooks in /repo: all monitors are attached from /verif/harness "
                  "(wrapping the real functions at module boundaries; "
                  "harness/monitors/site/sitecustomize.py activates them inside CLI child "
                  "processes only when NGS_VERIF_MONITORS is set)",
        "baseline_off_cmd": "cd /repo && /venv/bin/python -m pytest -ra -q -p no:cacheprovider "
                            "--timeout=900 --continue-on-collection-errors",
        "source_commits": [],
        "add_only": True,
    },
    "engines": [{"name": "ngs-runtime-monitors", "path": "/verif/harness",
                 "serves_properties": [c["property_id"] for c in checks],
                 "kind_free_text": "Python runtime monitors: reference-model oracles, boundary "
                 "tracers, I/O fault/crash injection, poisoned allocators, icontract contracts, "
                 "sys.monitoring reach counters; driven by seeded workload generators over up "
                 "to 16 worker processes"}],
    "checks": checks,
    "not_applicable": na,
    "notes": "Three-valued verdicts: exit 0 held on what was explored and all coverage gates "
             "met; exit 1 + VIOLATION line; exit 2 INCONCLUSIVE (gate unmet / worker lost). "
             "known_findings.json lists recorded and fixed genuine defects (never written at "
             "run time). NGS_VERIF_REPO selects the tree under test (default /repo).",
}
out = os.path.join(VERIF, "MANIFEST.json")
json.dump(manifest, open(out, "w"), indent=1)
import jsonschema
jsonschema.validate(manifest, json.load(open("/root/.vp/MANIFEST.schema.json")))
print(f"MANIFEST.json: {len(checks)} checks, {len(na)} not claimed; valid")
