#!/usr/bin/env python3
import glob, json, os, sys
VERIF = os.path.dirname(os.path.dirname(os.path.abspath(__file__)))
sys.path.append(os.path.join(VERIF, ".deps"))
import jsonschema
schema = json.load(open("/root/.vp/EVIDENCE.schema.json"))
bad = 0
for f in sorted(glob.glob(os.path.join(VERIF, "evidence", "*.json"))):
    try:
        jsonschema.validate(json.load(open(f)), schema)
        print("ok ", f)
    except Exception as e:
        bad += 1
        print("BAD", f, str(e)[:300])
sys.exit(1 if bad else 0)
