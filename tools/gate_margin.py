#!/usr/bin/env python3
"""Which coverage gates of the last runs would fail if every observed counter were only a
third of what it was?  (Gates that depend on luck must be replaced by directed cases.)"""
import copy, glob, importlib, json, os, sys
VERIF = os.path.dirname(os.path.dirname(os.path.abspath(__file__)))
sys.path.insert(0, VERIF); sys.path.append(os.path.join(VERIF, ".deps"))
os.environ.setdefault("NGS_VERIF_REPO", "/repo")
sys.path.insert(0, "/repo/src")
def scale(o, f):
    if isinstance(o, dict): return {k: scale(v, f) for k, v in o.items()}
    if isinstance(o, bool): return o
    if isinstance(o, int): return int(o * f)
    if isinstance(o, float): return o * f
    return o
for f in sorted(glob.glob(os.path.join(VERIF, "evidence", "C*.json"))):
    e = json.load(open(f)); p = e["property_id"]
    mod = importlib.import_module("harness.checks." + p.lower())
    obs = e["coverage"]["observed"]
    g3 = mod.gates(scale(copy.deepcopy(obs), 1 / 3), e["tier"])
    frag = [k for k, ok in g3.items() if not ok]
    small = []
    def walk(o, path=""):
        if isinstance(o, dict):
            for k, v in o.items(): walk(v, path + "/" + str(k))
        elif isinstance(o, int) and not isinstance(o, bool) and 0 < o < 3 and "calls" not in path:
            small.append(f"{path}={o}")
    walk(obs)
    print(p, e["tier"], "fragile-at-1/3:", frag, "| tiny counters:", small[:8])
