#!/venv/bin/python
"""Function-reach audit: which functions of the repository does the union of all checks
enter (in the check processes and in the command processes they start)?

  tools/reach_report.py [tier] [Cxx ...]     (default: quick, all checks)

Prints every function/method defined under src/neuroglancer_scripts that no check entered.
This is a workload-design aid (not a verdict): a function that no check reaches is a place
where a defect cannot be observed by any monitor.
"""
import ast
import glob
import json
import os
import subprocess
import sys
import tempfile

HERE = os.path.dirname(os.path.dirname(os.path.abspath(__file__)))
REPO = os.environ.get("NGS_VERIF_REPO", "/repo")


def defined():
    out = {}
    root = os.path.join(REPO, "src", "neuroglancer_scripts")
    for path in glob.glob(os.path.join(root, "**", "*.py"), recursive=True):
        mod = os.path.basename(path)[:-3]
        tree = ast.parse(open(path).read())

        def walk(node, prefix):
            for ch in ast.iter_child_nodes(node):
                if isinstance(ch, (ast.FunctionDef, ast.AsyncFunctionDef)):
                    q = prefix + ch.name
                    out[f"{mod}.{q}"] = (path, ch.lineno)
                    walk(ch, q + ".<locals>.")
                elif isinstance(ch, ast.ClassDef):
                    walk(ch, prefix + ch.name + ".")
                else:
                    walk(ch, prefix)
        walk(tree, "")
    return out


def main():
    args = sys.argv[1:]
    tier = args[0] if args and args[0] in ("quick", "thorough") else "quick"
    props = [a for a in args if a.startswith("C")] or [f"C{i:02d}" for i in range(1, 21)]
    d = tempfile.mkdtemp(prefix="reach-")
    out = tempfile.mkdtemp(prefix="reach-out-")
    env = dict(os.environ, NGS_VERIF_REACH_ALL=d, NGS_VERIF_OUT=out)
    per = {}
    for p in props:
        subprocess.run([os.path.join(HERE, "check"), p, tier], env=env,
                       stdout=subprocess.DEVNULL, stderr=subprocess.DEVNULL)
        got = {}
        for f in glob.glob(os.path.join(d, "*.json")):
            for k, v in json.load(open(f)).items():
                got[k] = got.get(k, 0) + v
            os.unlink(f)
        per[p] = got
        print(f"{p}: {len(got)} functions entered", flush=True)
    union = {}
    for p, got in per.items():
        for k, v in got.items():
            union.setdefault(k, {})[p] = v
    defs = defined()
    missing = sorted(k for k in defs if k not in union)
    print(f"\n{len(defs)} functions defined, {len(defs) - len(missing)} entered by some check, "
          f"{len(missing)} never entered:")
    for k in missing:
        print(f"   {k}   ({os.path.relpath(defs[k][0], REPO)}:{defs[k][1]})")
    json.dump({"per_check": {p: sorted(g) for p, g in per.items()}, "never": missing},
              open(os.path.join(HERE, "notes", "reach_report.json"), "w"), indent=1)
    import shutil
    shutil.rmtree(d, ignore_errors=True)
    shutil.rmtree(out, ignore_errors=True)


if __name__ == "__main__":
    main()
