#!/bin/bash
# usage: selftest/process_round.sh <round-tag e.g. r4> Cxx [Cxx ...]
# keeps /tmp/wt/<Cxx><tag>/SEED{1,2} as seeded/<Cxx>-<tag>s{1,2} after validating them
cd "$(dirname "$0")/.."
tag="$1"; shift
for p in "$@"; do
  for n in 1 2; do
    d=/tmp/wt/${p}${tag}/SEED$n
    [ -f "$d/patch.diff" ] || { echo "$p $tag SEED$n: missing"; continue; }
    selftest/keep_seed.py "$d" "$p-${tag}s$n" "$p" "$p" > /tmp/keep-$p-${tag}s$n.log 2>&1
    echo "$p-${tag}s$n: $(grep -E '^tests with seed|^demo exit|^check ' /tmp/keep-$p-${tag}s$n.log | cut -c1-220 | tr '\n' '|')"
  done
done
