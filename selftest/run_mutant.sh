#!/bin/bash
# usage: selftest/run_mutant.sh <patch-file | revert:<commit>> <Cxx> [tier]
# Applies a property-breaking change to a scratch copy of /repo (outside /repo and /verif),
# runs the check against that copy, removes the copy.  Evidence/replays of such runs go to a
# scratch directory, never to /verif/evidence.
set -u
what="$1"; prop="$2"; tier="${3:-quick}"
here="$(cd "$(dirname "$0")/.." && pwd)"
d="$(mktemp -d /tmp/ngsv-mut-XXXXXX)"
trap 'rm -rf "$d"' EXIT
mkdir -p "$d/tree" "$d/out"
git -C /repo archive HEAD src | tar -x -C "$d/tree"
# uncommitted edits of /repo's working tree are part of the tree under test
rsync -a --exclude '__pycache__' /repo/src/ "$d/tree/src/"
case "$what" in
  revert:*) git -C /repo show "${what#revert:}" -- src | patch -s -R -p1 -d "$d/tree" || { echo "PATCH-FAILED"; exit 3; } ;;
  *) patch -s -p1 -d "$d/tree" < "$what" || { echo "PATCH-FAILED"; exit 3; } ;;
esac
NGS_VERIF_REPO="$d/tree" NGS_VERIF_OUT="$d/out" "$here/check" "$prop" "$tier" > "$d/log" 2>&1
rc=$?
grep -E "VIOLATION|INCONCLUSIVE|held on|violating" "$d/log" | head -6
grep -B1 "^VIOLATION" "$d/log" | grep -v "^VIOLATION" | grep -v '^--' | head -3
echo "exit=$rc"
exit $rc
