#!/bin/bash
# Regression test of the checks themselves: every kept seeded defect (seeded/<id>/) is applied
# to a scratch copy of /repo and the checks recorded in its meta.json as "caught_by" are run
# again (quick tier); each must still exit 1.  usage: selftest/recheck_seeds.sh [id-prefix]
cd "$(dirname "$0")/.."
pat="${1:-}"
fail=0
for dir in seeded/${pat}*/; do
  id=$(basename "$dir")
  checks=$(python3 -c "import json,sys; print(' '.join(json.load(open('$dir/meta.json'))['caught_by'][:1]))")
  [ -z "$checks" ] && { echo "$id: no caught_by recorded"; continue; }
  for c in $checks; do
    out=$(selftest/run_mutant.sh "$dir/patch.diff" "$c" quick 2>&1 | tail -1)
    if [ "$out" = "exit=1" ]; then echo "$id $c caught"; else echo "$id $c NOT-CAUGHT ($out)"; fail=1; fi
  done
done
exit $fail
