#!/bin/bash
# Regression test of the checks themselves: every kept seeded defect (seeded/<id>/) is applied
# to a scratch copy of /repo and the checks recorded in its meta.json as "caught_by" are run
# again (quick tier); each must still exit 1.  usage: selftest/recheck_seeds.sh [id-prefix]
cd "$(dirname "$0")/.."
pat="${1:-}"
fail=0
for dir in seeded/${pat}*/; do
  id=$(basename "$dir")
  checks=$(python3 -c "import json,sys; print(' '.join(json.load(open('$dir/meta.json'))['caught_by'][:1]))")
  [ -z "$checks" ] && { echo "$id: no caught_by recorded"; continue; }
  base=$(python3 -c "import json; print(json.load(open('$dir/meta.json')).get('base',''))")
  for c in $checks; do
    if [ -n "$base" ]; then
      # a seed superseded by a later fix: commit is checked against the tree it was written for
      out=$(SEED_BASE=$base selftest/validate_seed.sh "$dir" "$c" 2>&1 | grep -q "^check $c -> exit 1" && echo "exit=1" || echo "exit=?")
    else
      out=$(selftest/run_mutant.sh "$dir/patch.diff" "$c" quick 2>&1 | tail -1)
    fi
    if [ "$out" = "exit=1" ]; then echo "$id $c caught"; else echo "$id $c NOT-CAUGHT ($out)"; fail=1; fi
  done
done
exit $fail
