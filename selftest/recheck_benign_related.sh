#!/bin/bash
# usage: selftest/recheck_benign_related.sh <benign-id> [...]   (e.g. C05-b2n2)
# Targeted false-alarm regression: the property's own check plus the checks anchored in the
# same files (3 to 5 checks per patch instead of all 20; the full matrix is recheck_benign.sh).
cd "$(dirname "$0")/.."
declare -A rel=( [C01]="C01 C11 C16 C19" [C02]="C02 C03 C10 C13" [C03]="C03 C02 C12" [C04]="C04 C05 C09" [C05]="C05 C04 C18 C03" [C06]="C06 C07 C19" [C07]="C07 C06 C19" [C08]="C08 C06" [C09]="C09 C04 C14" [C10]="C10 C02 C03 C18" [C11]="C11 C01 C07" [C12]="C12 C18 C03" [C13]="C13 C03 C18" [C14]="C14 C18 C13" [C15]="C15 C19 C18" [C16]="C16 C01" [C17]="C17" [C18]="C18 C12 C05 C14" [C19]="C19 C06 C01 C18" [C20]="C20 C19" )
for id in "$@"; do
  p=${id:0:3}
  out=$(selftest/validate_benign.sh benign/$id ${rel[$p]} 2>&1)
  echo "$id: silent=$(echo "$out" | grep -c 'exit 0') of $(echo ${rel[$p]} | wc -w) $(echo "$out" | grep '^check' | grep -v 'exit 0' | cut -c1-220 | tr '\n' '|')$(echo "$out" | grep -i 'does not apply' | head -1)"
done
