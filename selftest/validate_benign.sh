#!/bin/bash
# usage: selftest/validate_benign.sh <dir with patch.diff, demo.py> [Cxx ...]   (default: all 20)
# A property-preserving change: (1) patch applies to /repo HEAD, (2) the repository's test
# suite gives the baseline result, (3) demo.py passes with and without it, (4) EVERY named
# check (quick tier) must exit 0 on the patched copy - an alarm here is a false alarm of
# the check (or the change is not benign after all: read the witness).
set -u
seed="$(cd "$1" && pwd)"; shift
here="$(cd "$(dirname "$0")/.." && pwd)"
props="$@"; [ -z "$props" ] && props="C01 C02 C03 C04 C05 C06 C07 C08 C09 C10 C11 C12 C13 C14 C15 C16 C17 C18 C19 C20"
d="$(mktemp -d /tmp/ngsv-benign-XXXXXX)"
trap 'rm -rf "$d"' EXIT
mkdir -p "$d/clean" "$d/mut" "$d/out"
git -C /repo archive HEAD | tar -x -C "$d/clean"
git -C /repo archive HEAD | tar -x -C "$d/mut"
(cd "$d/mut" && git init -q . >/dev/null 2>&1; git apply "$seed/patch.diff") || { echo "BENIGN patch does not apply"; exit 3; }
echo "files: $(grep '^+++ ' "$seed/patch.diff" | tr '\n' ' ')"
t=$(cd "$d/mut" && PYTHONPATH="$d/mut/src" PYTHONDONTWRITEBYTECODE=1 /venv/bin/python -m pytest -q -p no:cacheprovider --timeout=900 unit_tests script_tests 2>&1 | tail -1)
echo "tests with change: $t"
(cd "$d" && PYTHONPATH="$d/clean/src" PYTHONDONTWRITEBYTECODE=1 timeout 300 /venv/bin/python "$seed/demo.py" >/dev/null 2>&1); c=$?
(cd "$d" && PYTHONPATH="$d/mut/src" PYTHONDONTWRITEBYTECODE=1 timeout 300 /venv/bin/python "$seed/demo.py" >/dev/null 2>&1); m=$?
echo "demo exit: clean=$c changed=$m"
for prop in $props; do
  NGS_VERIF_REPO="$d/mut" NGS_VERIF_OUT="$d/out" VERIF_SEED="${VERIF_SEED:-0}" timeout 2400 "$here/check" "$prop" "${TIER:-quick}" > "$d/log" 2>&1
  rc=$?
  echo "check $prop -> exit $rc: $(grep -B1 '^VIOLATION' "$d/log" | grep -v '^VIOLATION' | grep -v '^--' | head -1 | cut -c1-300)$(grep INCONCLUSIVE "$d/log" | head -1 | cut -c1-200)"
done
