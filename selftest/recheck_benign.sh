#!/bin/bash
# usage: selftest/recheck_benign.sh [id-prefix] -- runs ALL 20 checks (quick) against every kept
# property-preserving change under /verif/benign and records silent/alarms in its meta.json
cd "$(dirname "$0")/.."
for d in benign/${1:-}*/; do
  id=$(basename $d)
  out=$(selftest/validate_benign.sh $d 2>&1)
  python3 - "$d" <<PY
import json,sys
d=sys.argv[1]
out='''$out'''
lines=out.splitlines()
m=json.load(open(d+"/meta.json"))
m["confirmed_by_me"]={"command":"selftest/validate_benign.sh <dir>  (all 20 checks, quick tier)",
  "tests_with_change": next((l for l in lines if l.startswith("tests with")),None),
  "demo_exit": next((l for l in lines if l.startswith("demo exit")),None),
  "checks":[l for l in lines if l.startswith("check ")]}
m["silent"]=[l.split()[1] for l in lines if l.startswith("check ") and "exit 0" in l]
m["alarms"]=[l.split()[1] for l in lines if l.startswith("check ") and "exit 0" not in l]
json.dump(m,open(d+"/meta.json","w"),indent=1)
PY
  echo "$id: silent=$(echo "$out" | grep -c 'exit 0') $(echo "$out" | grep '^check' | grep -v 'exit 0' | cut -c1-200 | tr '\n' '|')"
done
