#!/usr/bin/env python3
"""usage: selftest/keep_seed.py <seed-dir> <id> <property> [check ...]
Re-validates an externally written seeded defect with selftest/validate_seed.sh and keeps it
as /verif/seeded/<id>/{patch.diff,demo.py,meta.json}."""
import json, os, shutil, subprocess, sys
here = os.path.dirname(os.path.dirname(os.path.abspath(__file__)))
seed, sid, prop, *checks = sys.argv[1:]
checks = checks or [prop]
out = subprocess.run([os.path.join(here, "selftest", "validate_seed.sh"), seed, *checks],
                     capture_output=True, text=True).stdout
print(out)
dst = os.path.join(here, "seeded", sid)
os.makedirs(dst, exist_ok=True)
for f in ("patch.diff", "demo.py"):
    shutil.copy(os.path.join(seed, f), os.path.join(dst, f))
try:
    src_meta = json.load(open(os.path.join(seed, "meta.json")))
except Exception:
    src_meta = {}
lines = out.splitlines()
meta = {
    "id": sid,
    "breaks_property": prop,
    "title": src_meta.get("title"),
    "description": src_meta.get("description"),
    "needs_to_manifest": src_meta.get("needs_to_manifest"),
    "files_changed": src_meta.get("files_changed"),
    "origin": "written by an independent sub-agent that saw only the property text and its "
              "own scratch worktree of /repo (nothing from /verif)",
    "author_commands": src_meta.get("commands_run"),
    "confirmed_by_me": {
        "command": f"selftest/validate_seed.sh <seed> {' '.join(checks)}  (scratch copy of "
                   "/repo HEAD under /tmp, patch applied with git apply, removed afterwards)",
        "tests_with_seed": next((l for l in lines if l.startswith("tests with seed")), None),
        "demo_exit": next((l for l in lines if l.startswith("demo exit")), None),
        "checks": [l for l in lines if l.startswith("check ")],
    },
    "caught_by": [l.split()[1] for l in lines if l.startswith("check ") and "exit 1" in l],
    "missed_by": [l.split()[1] for l in lines if l.startswith("check ") and "exit 0" in l],
}
json.dump(meta, open(os.path.join(dst, "meta.json"), "w"), indent=1)
