#!/bin/bash
# usage: selftest/validate_seed.sh <seed-dir with patch.diff, demo.py> [Cxx ...]
# Confirms an externally written seeded defect: (1) patch applies to /repo HEAD, (2) the
# repository's test suite gives the baseline result with it, (3) demo.py fails with and
# passes without it, then (4) runs the named checks (quick tier) against the patched copy.
set -u
seed="$(cd "$1" && pwd)"; shift
here="$(cd "$(dirname "$0")/.." && pwd)"
d="$(mktemp -d /tmp/ngsv-seed-XXXXXX)"
trap 'rm -rf "$d"' EXIT
mkdir -p "$d/clean" "$d/mut" "$d/out"
base="${SEED_BASE:-HEAD}"
# a seed written before fix c2c0405 whose patch edits the very lines the fix rewrote is
# validated against the tree it was written for
if [ "$base" = HEAD ] && ! git -C /repo apply --check "$seed/patch.diff" 2>/dev/null; then
  base=577b66d; echo "base: $base (the patch predates a later fix: commit and does not apply to HEAD)"
fi
git -C /repo archive "$base" | tar -x -C "$d/clean"
git -C /repo archive "$base" | tar -x -C "$d/mut"
(cd "$d/mut" && git init -q . >/dev/null 2>&1; git apply "$seed/patch.diff") || { echo "SEED patch does not apply"; exit 3; }
echo "files: $(grep '^+++ ' "$seed/patch.diff" | tr '\n' ' ')"
t=$(cd "$d/mut" && PYTHONPATH="$d/mut/src" PYTHONDONTWRITEBYTECODE=1 /venv/bin/python -m pytest -q -p no:cacheprovider --timeout=900 unit_tests script_tests 2>&1 | tail -1)
echo "tests with seed: $t"
(cd "$d" && PYTHONPATH="$d/clean/src" PYTHONDONTWRITEBYTECODE=1 timeout 300 /venv/bin/python "$seed/demo.py" >/dev/null 2>&1); c=$?
(cd "$d" && PYTHONPATH="$d/mut/src" PYTHONDONTWRITEBYTECODE=1 timeout 300 /venv/bin/python "$seed/demo.py" >/dev/null 2>&1); m=$?
echo "demo exit: clean=$c seeded=$m"
for prop in "$@"; do
  NGS_VERIF_REPO="$d/mut" NGS_VERIF_OUT="$d/out" timeout 1800 "$here/check" "$prop" "${TIER:-quick}" > "$d/log" 2>&1
  rc=$?
  echo "check $prop -> exit $rc: $(grep -B1 '^VIOLATION' "$d/log" | grep -v '^VIOLATION' | grep -v '^--' | head -1 | cut -c1-260)"
  [ $rc -eq 2 ] && grep INCONCLUSIVE "$d/log" | head -2 | cut -c1-300
done
