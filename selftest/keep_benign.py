#!/usr/bin/env python3
"""usage: selftest/keep_benign.py <dir> <id> <property> [check ...]   (default: all 20 checks)
Validates a property-PRESERVING change written by an independent sub-agent with
selftest/validate_benign.sh and keeps it as /verif/benign/<id>/{patch.diff,demo.py,meta.json}.
Every check must stay silent (exit 0) on it."""
import json, os, shutil, subprocess, sys
here = os.path.dirname(os.path.dirname(os.path.abspath(__file__)))
src, bid, prop, *checks = sys.argv[1:]
out = subprocess.run([os.path.join(here, "selftest", "validate_benign.sh"), src, *checks],
                     capture_output=True, text=True).stdout
print(out)
dst = os.path.join(here, "benign", bid)
os.makedirs(dst, exist_ok=True)
for f in ("patch.diff", "demo.py"):
    shutil.copy(os.path.join(src, f), os.path.join(dst, f))
try:
    m = json.load(open(os.path.join(src, "meta.json")))
except Exception:
    m = {}
lines = out.splitlines()
meta = {"id": bid, "anchored_in_property": prop, "title": m.get("title"),
        "description": m.get("description"),
        "why_property_preserved": m.get("why_property_preserved"),
        "what_an_overfitted_check_would_trip_on": m.get("what_an_overfitted_check_would_trip_on"),
        "files_changed": m.get("files_changed"),
        "origin": "written by an independent sub-agent that saw only the property text and "
                  "its own scratch worktree of /repo (nothing from /verif)",
        "confirmed_by_me": {
            "command": f"selftest/validate_benign.sh <dir> {' '.join(checks) or '(all 20)'}",
            "tests_with_change": next((l for l in lines if l.startswith("tests with")), None),
            "demo_exit": next((l for l in lines if l.startswith("demo exit")), None),
            "checks": [l for l in lines if l.startswith("check ")]},
        "silent": [l.split()[1] for l in lines if l.startswith("check ") and "exit 0" in l],
        "alarms": [l.split()[1] for l in lines if l.startswith("check ")
                   and "exit 0" not in l]}
json.dump(meta, open(os.path.join(dst, "meta.json"), "w"), indent=1)
