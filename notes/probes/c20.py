import random, collections, re
from fractions import Fraction
from neuroglancer_scripts.utils import readable_count
PFX={"":1,"ki":2**10,"Mi":2**20,"Gi":2**30,"Ti":2**40,"Pi":2**50,"Ei":2**60}
def check(n):
    s=readable_count(n)
    m=re.fullmatch(r"([0-9][0-9,]*)(?:\.([0-9]+))? (|ki|Mi|Gi|Ti|Pi|Ei)",s)
    if not m: return "unparseable:"+repr(s)
    ip,fp,pf=m.group(1).replace(",",""),m.group(2) or "",m.group(3)
    val=Fraction(int(ip+fp),10**len(fp))*PFX[pf]; unit=Fraction(PFX[pf],10**len(fp))
    if abs(val-n)>unit/2: return f"inexact:{s!r}"
    digits=(ip+fp).lstrip("0")
    exact=(val==n)
    if not exact and len(digits)<2: return f"sigdigits:{s!r}"
    if n<=2**60 and len(s)>6: return f"toolong:{s!r}"
    return None
res=collections.Counter(); ex={}
vals=set()
for k in range(0,7):
    for p in (1,2,5,9.94,9.95,9.96,9.99,10,10.01,99.4,99.5,99.6,100,100.1,999,999.4,999.5,999.6,1000,1000.1,1023,1023.5,1024):
        c=int(p*1024**k)
        for d in range(-40,41): vals.add(max(0,c+d))
rnd=random.Random(0)
for _ in range(200000): vals.add(int(2**rnd.uniform(0,62)))
for n in vals:
    r=check(n)
    if r:
        k=r.split(":")[0]; res[k]+=1; ex.setdefault(k,[]); 
        if len(ex[k])<6: ex[k].append((n,r))
    else: res["ok"]+=1
print(dict(res)); print(ex)
