import builtins, io, os, errno, sys, tempfile, shutil, json, collections, traceback, pathlib, gzip
import numpy as np
from neuroglancer_scripts.file_accessor import FileAccessor
from neuroglancer_scripts.sharded_file_accessor import ShardedFileAccessor
from neuroglancer_scripts.accessor import DataAccessError
class Hook:
    def __init__(s): s.n=0; s.fail_at=None; s.err=None; s.log=[]; s.on=False; s.root=None
    def point(s,name,path=None):
        if not s.on: return
        if path is not None and s.root and not str(path).startswith(s.root): return
        s.n+=1; s.log.append(name)
        if s.fail_at==s.n:
            raise OSError(s.err, os.strerror(s.err)+" [injected]", str(path) if path else None)
H=Hook()
_open=io.open; _stat=os.stat; _mkdir=os.mkdir; _unlink=os.unlink
class F:
    def __init__(s,f,path): s._f=f; s._p=path
    def write(s,b): H.point("write",s._p); return s._f.write(b)
    def read(s,*a): H.point("read",s._p); return s._f.read(*a)
    def flush(s): H.point("flush",s._p); return s._f.flush()
    def seek(s,*a): H.point("seek",s._p); return s._f.seek(*a)
    def close(s):
        try: H.point("close",s._p)
        finally: s._f.close()
    def __enter__(s): return s
    def __exit__(s,*a): s.close()
    def __getattr__(s,k): return getattr(s._f,k)
    def __iter__(s): return iter(s._f)
def my_open(file,mode="r",*a,**k):
    H.point("open:"+mode,file); f=_open(file,mode,*a,**k)
    if H.on and H.root and str(os.fspath(file)).startswith(H.root): return F(f,os.fspath(file))
    return f
def my_stat(p,*a,**k): H.point("stat",p if not isinstance(p,int) else None); return _stat(p,*a,**k)
def my_mkdir(p,*a,**k): H.point("mkdir",p); return _mkdir(p,*a,**k)
builtins.open=my_open; io.open=my_open; os.stat=my_stat; os.mkdir=my_mkdir
ERR=[errno.ENOSPC,errno.EACCES,errno.EIO,errno.ENOENT]
def enumerate_faults(label,setup,op):
    out=collections.Counter(); ex={}
    d=tempfile.mkdtemp(dir="/tmp/ngs-p"); H.root=d
    try:
        st=setup(d); H.n=0; H.log=[]; H.fail_at=None; H.on=True
        try: op(st)
        finally: H.on=False
        K=H.n; calls=list(H.log)
    finally: shutil.rmtree(d)
    for k in range(1,K+1):
        for e in ERR:
            d=tempfile.mkdtemp(dir="/tmp/ngs-p"); H.root=d
            try:
                st=setup(d); H.n=0; H.log=[]; H.fail_at=k; H.err=e; H.on=True
                try:
                    r=op(st); key="RETURNED-NORMALLY"
                except DataAccessError: key="DataAccessError"
                except OSError as x: key="OSError:"+type(x).__name__
                except BaseException as x: key="OTHER:"+type(x).__name__
                finally: H.on=False
                out[key]+=1
                if key.startswith(("RET","OTHER")): ex.setdefault(key,[]).append((calls[k-1],errno.errorcode[e]))
            finally: shutil.rmtree(d)
    print(label,"K=",K,calls); print("   ",dict(out)); 
    for k,v in ex.items(): print("   ",k,v[:8])
payload=bytes(range(256))*8
def setupF(flat,gz):
    def s(d):
        a=FileAccessor(d,flat=flat,gzip=gz)
        for i in range(3): a.store_chunk(payload,"k",(i*4,i*4+4,0,4,0,4))
        a.store_file("info",b"{}",mime_type="application/json")
        return a
    return s
for flat in (False,True):
  for gz in (False,True):
    enumerate_faults(f"store_chunk flat={flat} gz={gz}",setupF(flat,gz),lambda a:a.store_chunk(payload,"k",(100,104,0,4,0,4)))
    enumerate_faults(f"fetch_chunk flat={flat} gz={gz}",setupF(flat,gz),lambda a:a.fetch_chunk("k",(4,8,0,4,0,4)))
enumerate_faults("file_exists",setupF(False,True),lambda a:a.file_exists("info"))
enumerate_faults("fetch_file",setupF(False,True),lambda a:a.fetch_file("info"))
enumerate_faults("store_file",setupF(False,True),lambda a:a.store_file("x/y",b"abc"))
INFO={"type":"image","data_type":"uint8","num_channels":1,"scales":[{"key":"k","size":[16,16,16],"chunk_sizes":[[8,8,8]],"resolution":[1,1,1],"voxel_offset":[0,0,0],"encoding":"raw","sharding":{"@type":"neuroglancer_uint64_sharded_v1","minishard_bits":1,"shard_bits":1,"hash":"identity","minishard_index_encoding":"raw","data_encoding":"raw","preshift_bits":0}}]}
def setupS(strategy):
    def s(d):
        with _open(d+"/info","w") as f: json.dump(INFO,f)
        a=ShardedFileAccessor(d,strategy=strategy)
        return a
    return s
def opS(a):
    import contextlib
    with contextlib.redirect_stdout(io.StringIO()):
        for x in (0,8):
            for y in (0,8): a.store_chunk(payload,"k",(x,x+8,y,y+8,0,8))
        a.close()
for st in ("in memory","on disk"):
    enumerate_faults("sharded store+close "+st,setupS(st),opS)
