import numpy as np, nibabel, json, random, collections, logging
logging.disable(logging.CRITICAL)
from neuroglancer_scripts import volume_reader as vr, transform as tr
rnd=random.Random(1); rng=np.random.default_rng(1); res=collections.Counter(); worst=0
for t in range(2000):
    M=rng.normal(size=(3,3))*10**rng.uniform(-3,3,size=(1,3))
    if abs(np.linalg.det(M))<1e-6*np.prod(np.linalg.norm(M,axis=0)): continue
    aff=np.eye(4); aff[:3,:3]=M; aff[:3,3]=rng.normal(size=3)*10**rng.uniform(-2,4)
    shape=tuple(rnd.randint(1,6) for _ in range(3)); nch=rnd.choice([None,2])
    dt=rnd.choice(["uint8","int16","float32","uint16"])
    img=nibabel.Nifti1Image(np.zeros(shape+((nch,) if nch else ()),dt),aff)
    finfo,jt,indt,imp=vr.nibabel_image_to_info(img)
    info=json.loads(finfo); sc=info["scales"][0]
    vs=np.linalg.norm(img.affine[:3,:3],axis=0)
    assert sc["size"]==list(shape) and info["num_channels"]==(nch or 1)
    assert np.allclose(sc["resolution"],vs*1e6,rtol=1e-12), (sc["resolution"],vs*1e6)
    assert info["data_type"]==(dt if dt in ("uint8","uint16","float32") else "float32") and imp==(dt not in ("uint8","uint16","float32"))
    T=np.array(jt); resn=np.array(sc["resolution"])
    scale=np.abs(img.affine[:3,:3]).sum()*1e6*max(shape)+np.abs(img.affine[:3,3]).max()*1e6
    for _ in range(5):
        i=np.array([rnd.randint(0,s-1) for s in shape]+[1.0])
        phys=(img.affine@i)[:3]*1e6
        ng=(T@np.append((i[:3]+0.5)*resn,1.0))[:3]
        err=np.abs(phys-ng).max()/scale; worst=max(worst,err)
    comp=tr.matrix_as_compact_urlsafe_json(jt); back=json.loads(comp.replace("_",","))
    assert np.array_equal(np.array(back,dtype=float),T), comp
    res["ok"]+=1
print(dict(res),"worst rel err",worst)
