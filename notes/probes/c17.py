import numpy as np, io, struct, random, collections, re, json, os, shutil, subprocess, sys, nibabel, csv, gzip
from nibabel import gifti
from neuroglancer_scripts import mesh as M
rnd=random.Random(0); res=collections.Counter(); ex={}
def note(k,c=None): res[k]+=1; ex.setdefault(k,c)
# 1. writer layout + round trip
for t in range(500):
    n=rnd.choice([0,1,3,4,10,50]); m=rnd.choice([0,1,5,30]) if n>0 else 0
    rng=np.random.default_rng(t)
    V=(rng.normal(size=(n,3))*10**rng.uniform(-2,6)).astype(rnd.choice([np.float32,np.float64]))
    T=rng.integers(0,max(n,1),size=(m,3)).astype(rnd.choice([np.uint32,np.uint16,np.uint8]))
    if n and m: T[0]=[n-1,0,n-1]
    b=io.BytesIO(); M.save_mesh_as_precomputed(b,V,T); raw=b.getvalue()
    exp=struct.pack("<I",n)+V.astype("<f4").tobytes()+T.astype("<u4").tobytes()
    if raw!=exp: note("layout",(n,m))
    v2,t2=M.read_precomputed_mesh(io.BytesIO(raw))
    if not (np.array_equal(v2,V.astype(np.float32)) and np.array_equal(t2,T) and v2.dtype==np.float32 and t2.dtype==np.uint32 and v2.shape==(n,3) and t2.shape==(m,3)): note("roundtrip",(n,m))
    else: res["rt-ok"]+=1
    # reader fuzz
    for _ in range(10):
        mode=rnd.random(); bb=bytearray(raw)
        if mode<0.4: bb=bb[:rnd.randint(0,len(bb))]
        elif mode<0.7 and len(bb)>4:
            i=rnd.randrange(len(bb)); bb[i]=rnd.randrange(256)
        elif mode<0.85 and m>0:
            struct.pack_into("<I",bb,4+12*n+4*rnd.randrange(3*m),rnd.choice([n,n+1,n-1 if n else 0,2**32-1]))
        else: bb+=rnd.randbytes(rnd.randint(1,13))
        try:
            v3,t3=M.read_precomputed_mesh(io.BytesIO(bytes(bb)))
            nn=struct.unpack("<I",bytes(bb[:4]))[0]
            if not (v3.shape==(nn,3) and t3.ndim==2 and t3.shape[1]==3 and (t3.size==0 or t3.max()<nn) and len(bb)==4+12*nn+12*len(t3)): note("reader-accepted-bad",(n,m,mode))
            else: res["reader-accepted-consistent"]+=1
        except M.InvalidMeshDataError: res["reader-IMDE"]+=1
        except Exception as e: note("reader-EXC:"+type(e).__name__,(n,m,len(bb)))
# 2. affine orientation with integer matrices
def normal(V,tri): a,b,c=(V[i] for i in tri); return np.cross(b-a,c-a)
for t in range(2000):
    rng=np.random.default_rng(10000+t)
    R=rng.integers(-3,4,size=(3,3)).astype(float); det=round(np.linalg.det(R))
    if det==0: continue
    tr=rng.integers(-50,50,size=3).astype(float); A=np.eye(4); A[:3,:3]=R; A[:3,3]=tr
    V=rng.integers(-20,20,size=(8,3)).astype(np.float32); T=np.array([rng.choice(8,3,replace=False) for _ in range(6)],dtype=np.uint32)
    use34=rnd.random()<0.5
    V2,T2=M.affine_transform_mesh(V,T,A[:3] if use34 else A)
    if not np.allclose(V2,(R@V.T).T+tr): note("vertices",t)
    cof=det*np.linalg.inv(R).T
    for tri,tri2 in zip(T,T2):
        n0=normal(V.astype(float),tri)
        if np.allclose(n0,0): continue
        n1=normal(np.asarray(V2,float),tri2); expn=cof@n0*np.sign(det)  # outward preserved means n1 ∥ R^{-T} n0
        if np.dot(n1,np.linalg.inv(R).T@n0)<=0: note("orientation",(t,det)); break
    if (det<0)!=(not np.array_equal(T,T2)) and len(T): note("flip-iff-mirror",(t,det))
    res["affine-ok"]+=1
# 3. VTK grammar
def parse_vtk(txt):
    lines=txt.split("\n"); i=0
    assert re.fullmatch(r"[ \t]*#[ \t]+vtk[ \t]+DataFile[ \t]+Version[ \t]+\S+[ \t]*",lines[0]); assert len(lines[1])<=255
    assert lines[2].strip()=="ASCII" and lines[3].split()==["DATASET","POLYDATA"]
    m=re.fullmatch(r"POINTS (\d+) (\S+)",lines[4]); n=int(m[1]); i=5
    P=[[float(x) for x in lines[i+k].split()] for k in range(n)]; assert all(len(p)==3 for p in P); i+=n
    m=re.fullmatch(r"POLYGONS (\d+) (\d+)",lines[i]); mm=int(m[1]); assert int(m[2])==4*mm; i+=1
    F=[[int(x) for x in lines[i+k].split()] for k in range(mm)]; assert all(f[0]==3 and len(f)==4 for f in F); i+=mm
    attrs={}
    if i<len(lines) and lines[i].startswith("POINT_DATA"):
        assert int(lines[i].split()[1])==n; i+=1
        while i<len(lines) and lines[i].startswith("SCALARS"):
            parts=lines[i].split(); name=parts[1]; assert parts[2]=="float"; k=int(parts[3]) if len(parts)>3 else 1; i+=1
            assert lines[i].split()==["LOOKUP_TABLE","default"]; i+=1
            vals=[[float(x) for x in lines[i+j].split()] for j in range(n)]; assert all(len(v)==k for v in vals); i+=n; attrs[name]=vals
    assert all(l=="" for l in lines[i:]), lines[i:i+2]
    return np.array(P).reshape(n,3),np.array([f[1:] for f in F]).reshape(mm,3),attrs
for t in range(300):
    rng=np.random.default_rng(t); n=rnd.choice([1,3,20]); m=rnd.choice([0,1,7])
    V=(rng.normal(size=(n,3))*1e5).astype(np.float32); T=rng.integers(0,n,size=(m,3))
    attrs=[{"name":f"a{j}","values":rng.normal(size=(n,) if k==1 and rnd.random()<0.5 else (n,k)).astype(np.float32)} for j,k in enumerate(rnd.sample([1,2,3,4],rnd.randint(0,3)))]
    f=io.StringIO(); M.save_mesh_as_neuroglancer_vtk(f,V,T,vertex_attributes=attrs or None,title=rnd.choice(["","my title","x"*300]))
    try:
        P,F,A=parse_vtk(f.getvalue())
        if not (np.array_equal(P.astype(np.float32),V) and np.array_equal(F,T) and set(A)=={a["name"] for a in attrs}): note("vtk-content",t)
        else: res["vtk-ok"]+=1
    except Exception as e: note("vtk-parse:"+type(e).__name__+str(e)[:50],t)
print(dict(res)); print(ex)
