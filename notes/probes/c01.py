import numpy as np, nibabel, json, os, shutil, itertools, random, collections, logging, io, contextlib, tempfile
from fractions import Fraction
logging.disable(logging.CRITICAL)
from neuroglancer_scripts import volume_reader as vr, accessor as acc, precomputed_io as pio
NG={"uint8","uint16","uint32","uint64","float32"}
def rhe(fr):  # round half even of Fraction
    fl=fr.numerator//fr.denominator; rem=fr-fl
    if rem>Fraction(1,2) or (rem==Fraction(1,2) and fl%2==1): return fl+1
    return fl
def expected_set(raw, slope, inter, ignore, imin, imax, out):
    """return (lo,hi) arrays of acceptable ints, or float expectation"""
    s=Fraction(1) if ignore or slope is None else Fraction(slope); t=Fraction(0) if ignore or inter is None else Fraction(inter)
    outdt=np.dtype(out)
    if outdt.kind=="u": omin,omax=0,int(np.iinfo(outdt).max)
    else: omin,omax=Fraction(0),Fraction(1)
    if imax is not None:
        mn=Fraction(imin if imin is not None else 0); ps=Fraction(omax-omin)/(Fraction(imax)-mn); pi=Fraction(omin)-mn*ps
        s,t=s*ps,t*ps+pi
    flat=[Fraction(int(v)) if raw.dtype.kind in "iu" else Fraction(float(v)) for v in raw.ravel()]
    vals=[v*s+t for v in flat]
    return vals,omin,omax
rnd=random.Random(3); res=collections.Counter(); bad=[]
DT=["uint8","int8","uint16","int16","uint32","int32","float32","float64"]
for t in range(int(os.environ.get("N","150"))):
    d=tempfile.mkdtemp(dir="/tmp/ngs-p")
    try:
        shape=tuple(rnd.randint(1,9) for _ in range(3)); nch=rnd.choice([None,None,2,3]); dt=rnd.choice(DT)
        full=shape+((nch,) if nch else ())
        rng=np.random.default_rng(t)
        if np.dtype(dt).kind=="f": raw=(rng.integers(-2000,2000,size=full)/rnd.choice([1,2,4,8])).astype(dt)
        else:
            ii=np.iinfo(dt); raw=rng.integers(max(ii.min,-40000),min(ii.max,70000),size=full,endpoint=True).astype(dt)
        img=nibabel.Nifti1Image(raw,np.diag([1.,2.,3.,1.]))
        scal=rnd.choice([None,None,(0.5,10.0),(2.0,-3.0),(0.1,0.25),(1.0,0.0)])
        if scal and np.dtype(dt).kind in "iu": img.header.set_slope_inter(*scal)
        else: scal=None
        fn=d+"/v.nii"+rnd.choice(["",".gz"]); nibabel.save(img,fn)
        img2=nibabel.load(fn); slope,inter=img2.dataobj.slope,img2.dataobj.inter
        rawstored=np.asarray(img2.dataobj.get_unscaled())
        ignore=rnd.random()<0.2; mm=rnd.choice([None,None,(None,1000.0),(-100.0,500.0),(0.0,255.0)]); mmap=rnd.random()<0.4
        out=rnd.choice(sorted(NG)); cs=[rnd.choice([1,2,3,4,5,8]) for _ in range(3)]
        info={"type":"image","data_type":out,"num_channels":nch or 1,"scales":[{"key":"k","size":list(shape),"chunk_sizes":[cs],"encoding":"raw","resolution":[1e6,2e6,3e6],"voxel_offset":[0,0,0]}]}
        os.makedirs(d+"/o"); json.dump(info,open(d+"/o/info","w"))
        opts={"gzip":rnd.random()<0.5,"flat":rnd.random()<0.5}
        case=dict(shape=full,dt=dt,scal=scal,ignore=ignore,mm=mm,mmap=mmap,out=out,cs=cs)
        try:
            with contextlib.redirect_stderr(io.StringIO()):
                rc=vr.volume_file_to_precomputed(fn,d+"/o",ignore_scaling=ignore,input_min=mm[0] if mm else None,input_max=mm[1] if mm else None,load_full_volume=not mmap,options=opts)
        except Exception as e:
            res["exc:"+type(e).__name__]+=1; bad.append((case,type(e).__name__,str(e)[:70])); continue
        io_=pio.get_IO_for_existing_dataset(acc.get_accessor_for_url(d+"/o"))
        X,Y,Z=shape; got=np.zeros((nch or 1,Z,Y,X),out)
        for x,y,z in itertools.product(range(0,X,cs[0]),range(0,Y,cs[1]),range(0,Z,cs[2])):
            c=(x,min(x+cs[0],X),y,min(y+cs[1],Y),z,min(z+cs[2],Z)); got[:,c[4]:c[5],c[2]:c[3],c[0]:c[1]]=io_.read_chunk("k",c)
        vals,omin,omax=expected_set(rawstored,slope if scal else None,inter if scal else None,ignore,mm[0] if mm else None,mm[1] if mm else None,out)
        src=rawstored if nch else rawstored[...,None]
        g=np.moveaxis(got,(0,1,2,3),(3,2,1,0)).ravel()  # to x,y,z,c order matching src.ravel()
        ok=True
        for v,gv in zip(vals,g):
            if np.dtype(out).kind=="u":
                tol=Fraction(1,2**30)*max(1,abs(v)); cand={min(max(rhe(v-tol),omin),omax),min(max(rhe(v+tol),omin),omax),min(max(rhe(v),omin),omax)}
                if int(gv) not in cand: ok=False; w=(float(v),int(gv)); break
            else:
                if not np.isclose(float(gv),float(v),rtol=1e-6,atol=1e-30): ok=False; w=(float(v),float(gv)); break
        res["ok" if ok else "MISMATCH"]+=1
        if not ok: bad.append((case,w))
    finally: shutil.rmtree(d)
print(dict(res)); 
for b in bad[:12]: print(b)
