import icontract, numpy as np
from neuroglancer_scripts import sharded_base as sb, data_types as dt, downscaling as ds
class PostBroken(Exception): pass
COUNT={"morton":0,"down":0}
def ref(pos,grid):
    bits=[max(0,(g-1).bit_length()) for g in grid]; code=0; j=0
    for i in range(max(bits)):
        for d in range(3):
            if i<bits[d]: code|=((pos[d]>>i)&1)<<j; j+=1
    return code
def morton_ok(self, grid_coords, result):
    COUNT["morton"]+=1
    return int(result)==ref(grid_coords,self.grid_sizes)
sb.ShardVolumeSpec.compressed_morton_code=icontract.ensure(morton_ok,error=PostBroken)(sb.ShardVolumeSpec.compressed_morton_code)
def down_ok(self, chunk, downscaling_factors, result):
    COUNT["down"]+=1
    exp=tuple([chunk.shape[0]]+[-(-s//f) for s,f in zip(chunk.shape[1:],downscaling_factors[::-1])])
    return result.shape==exp and result.dtype==chunk.dtype and result.min()>=chunk.min() and result.max()<=chunk.max()
for cls in (ds.StridingDownscaler,ds.AveragingDownscaler,ds.MajorityDownscaler):
    cls.downscale=icontract.ensure(down_ok,error=PostBroken)(cls.downscale)
s=sb.ShardVolumeSpec([64]*3,[300,500,100])
print(s.get_cmc((64,128,128,192,0,64)), COUNT)
a=np.arange(2*5*6*7,dtype=np.uint8).reshape(2,5,6,7)
for d in (ds.StridingDownscaler(),ds.AveragingDownscaler(),ds.MajorityDownscaler()): print(d.downscale(a,(2,2,1)).shape)
print(COUNT)
# break it
orig=sb.ShardVolumeSpec.compressed_morton_code
try:
    s2=sb.ShardVolumeSpec([64]*3,[300,500,100]); s2.grid_sizes=[5,8,3]  # inconsistent on purpose
    s2.compressed_morton_code([4,7,1]); print("no violation?")
except PostBroken as e: print("PostBroken fired:",str(e)[:80])
