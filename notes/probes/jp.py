import numpy as np, random, collections
from neuroglancer_scripts import chunk_encoding as ce
rnd=random.Random(0); mx=collections.defaultdict(float); mean=collections.defaultdict(float)
def smooth(shape,rng):
    C,Z,Y,X=shape; z,y,x=np.meshgrid(np.arange(Z),np.arange(Y),np.arange(X),indexing="ij")
    out=[]
    for c in range(C):
        a,b,d,e=rng.uniform(-6,6,4)
        out.append(np.clip(128+a*x+b*y+d*z+20*np.sin((x+y+z)/ (3+abs(e))),0,255))
    return np.round(np.stack(out)).astype(np.uint8)
for t in range(1500):
    C=rnd.choice([1,3]); shape=(C,rnd.randint(1,20),rnd.randint(1,20),rnd.randint(1,20)); q=rnd.choice([90,95,100]); plane=rnd.choice(["xy","xz"])
    rng=np.random.default_rng(t); a=smooth(shape,rng)
    enc=ce.JpegChunkEncoder("uint8",C,jpeg_quality=q,jpeg_plane=plane)
    r=enc.decode(enc.encode(a),(shape[3],shape[2],shape[1]))
    assert r.shape==a.shape and r.dtype==np.uint8
    e=np.abs(r.astype(int)-a.astype(int)); k=(C,q)
    mx[k]=max(mx[k],e.max()); mean[k]=max(mean[k],e.mean())
    # transposed decoy: what would a plane mix-up give
for k in sorted(mx): print(k,"max",mx[k],"mean",round(mean[k],2))
# decoy: decode with swapped chunk size (non-cubic) to see error magnitude of a scrambled chunk
a=smooth((1,6,10,14),np.random.default_rng(1)); enc=ce.JpegChunkEncoder("uint8",1,jpeg_quality=95,jpeg_plane="xy")
b=enc.encode(a); enc2=ce.JpegChunkEncoder("uint8",1,jpeg_quality=95,jpeg_plane="xz")
try:
    r=enc2.decode(b,(14,10,6)); print("decoy err max",np.abs(r.astype(int)-a.astype(int)).max(), "mean", np.abs(r.astype(int)-a.astype(int)).mean())
except Exception as e: print("decoy",type(e).__name__)
