import copy, logging
logging.disable(logging.CRITICAL)
from neuroglancer_scripts import dyadic_pyramid as dp
for res,size,t in [([1,1,8],[64,64,1024],64),([1,1,8],[1000,1000,1024],64),([1,2,2],[512,512,512],64),([1,1,1],[1000,300,40],64),([1,1,4],[100,100,4000],64)]:
    info={"type":"image","data_type":"uint8","num_channels":1,"scales":[{"size":size,"resolution":res,"voxel_offset":[0,0,0],"encoding":"raw"}]}
    out=dp.fill_scales_for_dyadic_pyramid(info,t)
    last=out["scales"][-1]
    print(res,size,"levels",len(out["scales"]),"last size",last["size"],"chunks",last["chunk_sizes"],"fits(2*target):",all(s<=2*t for s in last["size"]))
