import numpy as np, random, struct, collections
from neuroglancer_scripts import chunk_encoding as ce
rnd=random.Random(1); out=collections.Counter(); ex={}
for trial in range(30000):
    dt=rnd.choice(["uint32","uint64"]); C=rnd.choice([1,2,3]); bs=[rnd.choice([1,2,3,4,8]) for _ in range(3)]
    shape=(C,rnd.randint(1,6),rnd.randint(1,6),rnd.randint(1,6))
    enc=ce.CompressedSegmentationEncoder(dt,C,bs)
    a=np.random.default_rng(trial).integers(0,rnd.choice([1,2,5,300]),size=shape).astype(dt)
    b=bytearray(enc.encode(a))
    m=rnd.random()
    if m<0.2: b=b[:rnd.randint(0,len(b))]
    elif m<0.5:
        for _ in range(rnd.randint(1,4)): b[rnd.randrange(len(b))]=rnd.randrange(256)
    elif m<0.7:
        i=rnd.randrange(0,len(b)//4)*4; struct.pack_into("<I",b,i,rnd.choice([0,1,2,len(b)//4,len(b)//4+1,0xFFFFFFFF,rnd.randrange(2**32)]))
    elif m<0.8: b=bytearray(rnd.randbytes(rnd.randint(0,200)))
    else: b+=rnd.randbytes(rnd.randint(0,9))
    try:
        r=enc.decode(bytes(b),(shape[3],shape[2],shape[1])); 
        assert r.shape==shape and r.dtype==np.dtype(dt).newbyteorder("<"), (r.shape,r.dtype)
        out["ok"]+=1
    except ce.InvalidFormatError: out["IFE"]+=1
    except Exception as e:
        k=type(e).__name__+":"+str(e)[:25]; out[k]+=1; ex.setdefault(k,(dt,C,bs,shape,bytes(b).hex()[:80]))
print(out); print(list(ex.items())[:3])
# jpeg
j=ce.JpegChunkEncoder("uint8",3); c=np.random.default_rng(0).integers(0,255,(3,4,6,8),dtype=np.uint8); jb=j.encode(c)
o=collections.Counter()
for cut in range(len(jb)):
    try: r=j.decode(jb[:cut],(8,6,4)); o["ok"]+=1
    except ce.InvalidFormatError: o["IFE"]+=1
    except Exception as e: o[type(e).__name__]+=1
for t in range(3000):
    b=bytearray(jb); 
    for _ in range(rnd.randint(1,5)): b[rnd.randrange(len(b))]=rnd.randrange(256)
    try: r=j.decode(bytes(b),(8,6,4)); o["ok"]+=1; assert r.shape==(3,4,6,8)
    except ce.InvalidFormatError: o["IFE"]+=1
    except Exception as e: o[type(e).__name__+str(e)[:40]]+=1
print(o)
