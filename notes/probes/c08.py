import copy, json, math, random, collections, logging, os
from fractions import Fraction
logging.disable(logging.CRITICAL)
from neuroglancer_scripts import dyadic_pyramid as dp, chunk_encoding as ce
rnd=random.Random(int(os.environ.get("SEED","0"))); res=collections.Counter(); ex={}
def note(k,case): res[k]+=1; ex.setdefault(k,case)
def ispow2(n): return n>=1 and n&(n-1)==0
for t in range(int(os.environ.get("N","4000"))):
    size=[max(1,int(10**rnd.uniform(0,rnd.choice([2,4,9])))) for _ in range(3)]
    base=10**rnd.uniform(-3,9)
    mode=rnd.random()
    if mode<0.3: r=[base]*3
    elif mode<0.6: r=[base*2**rnd.randint(0,rnd.choice([2,6,17])) for _ in range(3)]
    else: r=[base*10**rnd.uniform(0,rnd.choice([0.4,1,5])) for _ in range(3)]
    if rnd.random()<0.3: r=[float(max(1,round(x))) for x in r]
    tcs=rnd.choice([1,2,4,8,16,32,64,64,128,512]); ms=rnd.choice([None,None,None,1,2,3,5,10])
    info={"type":"image","data_type":"uint8","num_channels":1,"scales":[{"size":list(size),"resolution":list(r),"voxel_offset":[0,0,0],"encoding":"raw"}]}
    case=(size,r,tcs,ms)
    try: out=dp.fill_scales_for_dyadic_pyramid(copy.deepcopy(info),tcs,ms)
    except Exception as e: note("EXC:"+type(e).__name__+(":tcs1" if tcs==1 else ""),case); continue
    sc=out["scales"]
    try: json.loads(json.dumps(out))
    except Exception: note("notjson",case)
    keys=[s["key"] for s in sc]
    if len(set(keys))!=len(keys): note("dupkeys"+(":subpm" if min(r)<1e-3*1.0001 or True and min(r)*1000<2 else ""),case)
    ok=True; T=int(math.log2(tcs)); started=[None]*3
    for L,s in enumerate(sc):
        f=[]
        for a in range(3):
            q=Fraction(s["resolution"][a])/Fraction(r[a])
            if q.denominator!=1 or not ispow2(q.numerator): note("factor-not-pow2",case); ok=False; break
            f.append(q.numerator)
            if q.numerator>1 and started[a] is None: started[a]=L
        if not ok: break
        if s["size"]!=[-(-size[a]//f[a]) for a in range(3)]: note("size-formula",case); ok=False; break
        cs=s["chunk_sizes"]
        if len(cs)!=1 or not all(ispow2(c) for c in cs[0]): note("chunk-not-pow2",case); ok=False; break
        if abs(sum(int(math.log2(c)) for c in cs[0])-3*T)>1: note("chunk-voxels",case)
        if L>0:
            pf=prevf
            if any(f[a]//pf[a] not in (1,2) or f[a]%pf[a] for a in range(3)): note("step-not-1-2",case)
            if f==pf: note("no-progress",case)
        prevf=f
        ratio=max(s["resolution"])/min(s["resolution"]); init=max(r)/min(r)
        if ratio>max(init,2)*(1+1e-9): note("aniso-worse",case)
        try: ce.get_encoder(out,s)
        except Exception as e: note("encoder-reject",case)
    if not ok: continue
    if sc[0]["size"]!=size or sc[0]["resolution"]!=r: note("level0-changed",case)
    # start order
    order_ok=all(not (r[a]<r[b] and started[a] is not None and started[b] is not None and started[a]>started[b]) for a in range(3) for b in range(3))
    if not order_ok: note("start-order",case)
    # last fits
    cut = ms is not None and len(sc)>=ms
    if not cut and any(x>2*tcs for x in sc[-1]["size"]): note("last-not-fit",case)
    if all(x is not None for x in started) or len(sc)>max((x or 0) for x in started):
        pass
    if all(fx>1 for fx in prevf):
        if max(sc[-1]["resolution"])/min(sc[-1]["resolution"])>2*(1+1e-9): note("final-aniso>2",case)
    res["checked"]+=1
for k in sorted(res): print(k,res[k], ex.get(k,""))
