import numpy as np, json, os, shutil, itertools, io, contextlib, collections, random
from pathlib import Path
from PIL import Image
from neuroglancer_scripts.scripts import slices_to_precomputed as s2p
from neuroglancer_scripts import accessor as acc, precomputed_io as pio
import logging; logging.disable(logging.CRITICAL)
AX={"R":(0,+1),"L":(0,-1),"A":(1,+1),"P":(1,-1),"S":(2,+1),"I":(2,-1)}
def expected(stack, code):
    # stack[c][slice,row,col]; code letters: 1st = direction of increasing column index, 2nd = of increasing row index, 3rd = of increasing slice number
    C,ns,nr,ncol=stack.shape
    insize=(ncol,nr,ns)
    size=[0,0,0]
    for i,l in enumerate(code): size[AX[l][0]]=insize[i]
    out=np.zeros((C,size[2],size[1],size[0]),stack.dtype)
    for x,y,z in itertools.product(range(size[0]),range(size[1]),range(size[2])):
        ras=(x,y,z); idx=[0,0,0]
        for i,l in enumerate(code):
            a,s=AX[l]; v=ras[a]
            idx[i]= v if s>0 else insize[i]-1-v
        col,row,sl=idx
        out[:,z,y,x]=stack[:,sl,row,col]
    return out,size
def run(code,insize,cs,C=1,dtype=np.uint8,opts={"gzip":False,"flat":True}):
    shutil.rmtree("slw",ignore_errors=True); os.makedirs("slw/out")
    ncol,nr,ns=insize
    rng=np.random.default_rng(hash((code,insize))%2**32)
    stack=rng.integers(0,np.iinfo(dtype).max,size=(C,ns,nr,ncol)).astype(dtype)
    dirs=[]
    for c in range(C):
        d=f"slw/in{c}"; os.makedirs(d); dirs.append(Path(d))
        for i in range(ns): Image.fromarray(stack[c,i]).save(f"{d}/s{i:04d}.png")
    exp,size=expected(stack,code)
    info={"type":"image","data_type":np.dtype(dtype).name,"num_channels":C,"scales":[{"key":"k","size":size,"chunk_sizes":[cs],"encoding":"raw","resolution":[1,1,1],"voxel_offset":[0,0,0]}]}
    json.dump(info,open("slw/out/info","w"))
    with contextlib.redirect_stdout(io.StringIO()), contextlib.redirect_stderr(io.StringIO()):
        s2p.convert_slices_in_directory(dirs,"slw/out",code,options=opts)
    io_=pio.get_IO_for_existing_dataset(acc.get_accessor_for_url("slw/out"))
    got=np.zeros_like(exp)
    X,Y,Z=size
    for x,y,z in itertools.product(range(0,X,cs[0]),range(0,Y,cs[1]),range(0,Z,cs[2])):
        c=(x,min(x+cs[0],X),y,min(y+cs[1],Y),z,min(z+cs[2],Z)); got[:,c[4]:c[5],c[2]:c[3],c[0]:c[1]]=io_.read_chunk("k",c)
    return np.array_equal(got,exp)
res=collections.Counter(); bad=[]
rnd=random.Random(0)
for code in s2p.POSSIBLE_AXIS_ORIENTATIONS:
    for t in range(3):
        insize=(rnd.randint(1,7),rnd.randint(1,7),rnd.randint(1,7)); cs=[rnd.choice([1,2,3,4]) for _ in range(3)]; C=rnd.choice([1,1,2]); dt=rnd.choice([np.uint8,np.uint16])
        try:
            ok=run(code,insize,cs,C,dt); res["ok" if ok else "MISMATCH"]+=1
            if not ok: bad.append((code,insize,cs,C))
        except Exception as e:
            res["exc:"+type(e).__name__]+=1; bad.append((code,insize,cs,C,str(e)[:60]))
print(dict(res)); print(bad[:8])
shutil.rmtree("slw",ignore_errors=True)
