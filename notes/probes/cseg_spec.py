"""Independent decoder written from Neuroglancer's compressed_segmentation spec (pure Python ints)."""
import struct
class SpecError(Exception): pass
def u32(buf,word):
    if word<0 or 4*word+4>len(buf): raise SpecError(f"word {word} outside file of {len(buf)} bytes")
    return struct.unpack_from("<I",buf,4*word)[0]
def decode(buf,shape_czyx,block_xyz,itemsize):
    buf=bytes(buf); C,Z,Y,X=shape_czyx; bx,by,bz=block_xyz
    if len(buf)%4: raise SpecError("file length not a multiple of 4")
    gx,gy,gz=-(-X//bx),-(-Y//by),-(-Z//bz)
    out=[[[[None]*X for _ in range(Y)] for _ in range(Z)] for _ in range(C)]
    wpe=itemsize//4; bitsseen=set()
    for c in range(C):
        base=u32(buf,c)                       # channel offset, in 32-bit words from start of file
        if base<C: raise SpecError("channel data overlaps channel header")
        for z in range(gz):
            for y in range(gy):
                for x in range(gx):
                    h=base+2*(x+gx*(y+gy*z))
                    w0=u32(buf,h); w1=u32(buf,h+1)
                    table=base+(w0&0xFFFFFF); bits=w0>>24; vals=base+w1   # offsets relative to channel start
                    if bits not in (0,1,2,4,8,16,32): raise SpecError(f"bad bits {bits}")
                    bitsseen.add(bits)
                    for zz in range(bz):
                        for yy in range(by):
                            for xx in range(bx):
                                i=xx+bx*(yy+by*zz)
                                if bits==0: idx=0
                                else:
                                    bitpos=i*bits; word=u32(buf,vals+bitpos//32); idx=(word>>(bitpos%32))&((1<<bits)-1)
                                gxp,gyp,gzp=x*bx+xx,y*by+yy,z*bz+zz
                                if gxp<X and gyp<Y and gzp<Z:
                                    v=u32(buf,table+idx*wpe)
                                    if wpe==2: v|=u32(buf,table+idx*wpe+1)<<32
                                    out[c][gzp][gyp][gxp]=v
    return out,bitsseen
