import os, shutil, tempfile, random, collections, gzip, hashlib, itertools
from neuroglancer_scripts.file_accessor import FileAccessor
from neuroglancer_scripts.sharded_file_accessor import ShardedFileAccessor
from neuroglancer_scripts.accessor import DataAccessError, get_accessor_for_url
rnd=random.Random(1); res=collections.Counter(); ex={}
def note(k,c): res[k]+=1; ex.setdefault(k,c)
NOGZ={"application/json","image/jpeg","image/png"}
CONFS=[dict(flat=f,gzip=g,compresslevel=l) for f in (False,True) for g in (False,True) for l in (1,9)]
names=["info","a","mesh/10:0","mesh/frag.bin","x/y/z","k/0-4_0-4_0-4x"]
mimes={"info":"application/json","a":"application/octet-stream","mesh/10:0":"application/json","mesh/frag.bin":"application/octet-stream","x/y/z":"image/png","k/0-4_0-4_0-4x":"application/octet-stream"}
coords=[(0,4,0,4,0,4),(4,8,0,4,0,4),(0,4,4,7,0,4),(128,192,0,64,64,128)]
cmime=["application/octet-stream","image/jpeg"]
for t in range(400):
    d=tempfile.mkdtemp(dir="/tmp/ngs-p"); conf=rnd.choice(CONFS); A=FileAccessor(d,**conf)
    files={}; chunks={}
    try:
        for step in range(rnd.randint(5,40)):
            op=rnd.choice(["sf","sf","ff","fe","sc","sc","fc"])
            if op=="sf":
                n=rnd.choice(names); b=rnd.randbytes(rnd.choice([0,1,10,5000])); ow=rnd.random()<0.5
                try:
                    A.store_file(n,b,mime_type=mimes[n],overwrite=ow)
                    if n in files and not ow: note("overwrite-not-refused",(conf,n))
                    files[n]=b
                except DataAccessError:
                    if not (n in files and not ow): note("store_file-unexpected-DAE",(conf,n))
            elif op=="ff":
                n=rnd.choice(names)
                try:
                    g=A.fetch_file(n)
                    if n not in files: note("fetch-absent-returned",(conf,n))
                    elif g!=files[n]: note("fetch-file-stale",(conf,n))
                except DataAccessError:
                    if n in files: note("fetch-file-DAE",(conf,n))
            elif op=="fe":
                n=rnd.choice(names)
                if A.file_exists(n)!=(n in files): note("exists-wrong",(conf,n))
            elif op=="sc":
                c=rnd.choice(coords); k=rnd.choice(["s0","10um"]); m=cmime[hash(k)%2 if False else (0 if k=="s0" else 1)]; b=rnd.randbytes(rnd.choice([0,3,4096])); ow=rnd.random()<0.7
                try:
                    A.store_chunk(b,k,c,mime_type=m,overwrite=ow)
                    if (k,c) in chunks and not ow: note("chunk-overwrite-not-refused",(conf,))
                    chunks[(k,c)]=(b,m)
                except DataAccessError:
                    if not ((k,c) in chunks and not ow): note("store_chunk-unexpected-DAE",(conf,))
            else:
                c=rnd.choice(coords); k=rnd.choice(["s0","10um"])
                try:
                    g=A.fetch_chunk(k,c)
                    if (k,c) not in chunks: note("fetch-absent-chunk-returned",(conf,))
                    elif g!=chunks[(k,c)][0]: note("fetch-chunk-stale",(conf,))
                except DataAccessError:
                    if (k,c) in chunks: note("fetch-chunk-DAE",(conf,))
        # disk audit
        for (k,c),(b,m) in chunks.items():
            name=("{}/{}-{}_{}-{}_{}-{}" if conf["flat"] else "{}/{}-{}/{}-{}/{}-{}").format(k,*c)
            gz=conf["gzip"] and m not in NOGZ; p=os.path.join(d,name+(".gz" if gz else ""))
            if not os.path.isfile(p): note("chunk-path-wrong",(conf,name)); continue
            raw=open(p,"rb").read()
            if (gzip.decompress(raw) if gz else raw)!=b: note("disk-content-wrong",(conf,name))
        for n,b in files.items():
            gz=conf["gzip"] and mimes[n] not in NOGZ; p=os.path.join(d,n+(".gz" if gz else ""))
            if not os.path.isfile(p): note("file-path-wrong",(conf,n)); continue
            raw=open(p,"rb").read()
            if (gzip.decompress(raw) if gz else raw)!=b: note("disk-file-wrong",(conf,n))
        # cross-config
        for c2 in CONFS:
            B=FileAccessor(d,**c2)
            for (k,c),(b,m) in chunks.items():
                if B.fetch_chunk(k,c)!=b: note("cross-chunk",(conf,c2))
            for n,b in files.items():
                if B.fetch_file(n)!=b or not B.file_exists(n): note("cross-file",(conf,c2))
        res["histories"]+=1
    except Exception as e:
        note("EXC:"+type(e).__name__+":"+str(e)[:60],(conf,))
    finally: shutil.rmtree(d)
print(dict(res)); print({k:v for k,v in ex.items()})
