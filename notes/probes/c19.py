import numpy as np, nibabel, json, os, shutil, subprocess, sys, itertools, collections
from neuroglancer_scripts import accessor as acc, precomputed_io as pio
def run(*a):
    r=subprocess.run([sys.executable,"-m","neuroglancer_scripts.scripts."+a[0],*a[1:]],capture_output=True,text=True,timeout=300)
    if r.returncode not in (0,): print("  $",a,"->",r.returncode,r.stderr.strip().splitlines()[-1][:120] if r.stderr.strip() else "")
    return r.returncode
def chunks(sc):
    X,Y,Z=sc["size"]; cs=sc["chunk_sizes"][0]
    for x,y,z in itertools.product(range(0,X,cs[0]),range(0,Y,cs[1]),range(0,Z,cs[2])): yield (x,min(x+cs[0],X),y,min(y+cs[1],Y),z,min(z+cs[2],Z))
def readall(d):
    a=acc.get_accessor_for_url(d); io_=pio.get_IO_for_existing_dataset(a); out={}
    for sc in io_.info["scales"]:
        for c in chunks(sc): out[(sc["key"],c)]=np.array(io_.read_chunk(sc["key"],c))
    return out,io_.info
rng=np.random.default_rng(0)
cases=[("u8-avg",rng.integers(0,255,(130,70,66),dtype=np.uint8),np.diag([1,1,1,1.]),[],[],["--downscaling-method","average"]),
       ("seg-maj",rng.integers(0,6,(70,66,40)).astype(np.uint16),np.diag([1,1,2,1.]),["--type","segmentation","--encoding","compressed_segmentation"],[],["--downscaling-method","majority"]),
       ("u16-stride-flat",rng.integers(0,60000,(100,90,70)).astype(np.uint16),np.diag([0.5,0.5,1.5,1.]),[],["--flat","--no-gzip"],["--downscaling-method","stride"]),
       ("f32-auto",rng.normal(size=(70,70,70)).astype(np.float32),np.diag([2,2,2,1.]),[],[],[])]
for name,vol,aff,tyenc,store,down in cases:
    for d in ("A","B"): shutil.rmtree(d,ignore_errors=True)
    nibabel.save(nibabel.Nifti1Image(vol,aff),"v.nii.gz")
    rcA=run("volume_to_precomputed_pyramid",*tyenc,*store,*down,"v.nii.gz","A")
    run("volume_to_precomputed","--generate-info","v.nii.gz","B")
    run("generate_scales_info",*tyenc,"B/info_fullres.json","B")
    run("volume_to_precomputed",*store,"v.nii.gz","B")
    rcB=run("compute_scales",*store,*down,"B")
    try:
        a,ia=readall("A"); b,ib=readall("B")
        same=ia==ib and set(a)==set(b) and all(np.array_equal(a[k],b[k]) for k in a)
        # repeat steps on B
        run("volume_to_precomputed",*store,"v.nii.gz","B"); run("compute_scales",*store,*down,"B")
        b2,_=readall("B"); idem=all(np.array_equal(b[k],b2[k]) for k in b)
        print(name,"rc",rcA,rcB,"scales",len(ia["scales"]),"chunks",len(a),"same",same,"idempotent",idem, ia["data_type"], ia["scales"][0]["encoding"])
    except Exception as e: print(name,"ERR",type(e).__name__,str(e)[:100])
