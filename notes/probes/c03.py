import numpy as np, copy, tempfile, shutil, collections, itertools, logging, io, contextlib, random, os, json, hashlib
logging.disable(logging.CRITICAL)
from neuroglancer_scripts import precomputed_io as pio, accessor as acc
from neuroglancer_scripts.file_accessor import FileAccessor
from neuroglancer_scripts.sharded_file_accessor import ShardedFileAccessor
rnd=random.Random(int(os.environ.get("SEED","4"))); res=collections.Counter(); ex={}
def note(k,c=None): res[k]+=1; ex.setdefault(k,c)
def grid(sc,cs):
    X,Y,Z=sc["size"]
    for x,y,z in itertools.product(range(0,X,cs[0]),range(0,Y,cs[1]),range(0,Z,cs[2])): yield (x,min(x+cs[0],X),y,min(y+cs[1],Y),z,min(z+cs[2],Z))
def tree(d):
    h=hashlib.sha1()
    for root,ds,fs in sorted(os.walk(d)):
        for f in sorted(fs): h.update(os.path.join(root,f).encode()); h.update(open(os.path.join(root,f),"rb").read())
    return h.hexdigest()
def ongrid(sc,c):
    for cs in sc["chunk_sizes"]:
        if all(isinstance(v,(int,np.integer)) for v in c) and all(0<=c[2*a]<sc["size"][a] and c[2*a]%cs[a]==0 and c[2*a+1]==min(c[2*a]+cs[a],sc["size"][a]) for a in range(3)): return True
    return False
def smooth(shape,rng):
    C,Z,Y,X=shape; z,y,x=np.meshgrid(np.arange(Z),np.arange(Y),np.arange(X),indexing="ij")
    return np.round(np.stack([np.clip(128+rng.uniform(-6,6)*x+rng.uniform(-6,6)*y+rng.uniform(-6,6)*z,0,255) for _ in range(C)])).astype(np.uint8)
for t in range(int(os.environ.get("N","200"))):
    sharded=rnd.random()<0.4; enc=rnd.choice(["raw","raw","compressed_segmentation","jpeg"])
    dt={"raw":rnd.choice(["uint8","uint16","uint32","uint64","float32"]),"compressed_segmentation":rnd.choice(["uint32","uint64"]),"jpeg":"uint8"}[enc]
    nc={"jpeg":rnd.choice([1,3])}.get(enc,rnd.randint(1,3))
    scales=[]
    for i in range(rnd.randint(1,3)):
        size=[rnd.randint(1,30) for _ in range(3)]
        cs=[rnd.choice([4,8,16])]*3 if sharded else [rnd.randint(1,12) for _ in range(3)]
        sc={"key":f"s{i}","size":size,"chunk_sizes":[cs],"resolution":[2**i]*3,"voxel_offset":[0,0,0],"encoding":enc}
        if not sharded and rnd.random()<0.2: sc["chunk_sizes"].append([c*2 for c in cs])
        if enc=="compressed_segmentation": sc["compressed_segmentation_block_size"]=[rnd.choice([1,2,4,8]) for _ in range(3)]
        if sharded: sc["sharding"]={"@type":"neuroglancer_uint64_sharded_v1","minishard_bits":rnd.randint(0,3),"shard_bits":rnd.randint(0,3),"hash":"identity","minishard_index_encoding":rnd.choice(["raw","gzip"]),"data_encoding":rnd.choice(["raw","gzip"]),"preshift_bits":rnd.randint(0,3)}
        scales.append(sc)
    info={"type":"image","data_type":dt,"num_channels":nc,"scales":scales}
    eo={"jpeg_quality":rnd.choice([90,95,100]),"jpeg_plane":rnd.choice(["xy","xz"])}
    d=tempfile.mkdtemp(dir="/tmp/ngs-p")
    try:
        A=ShardedFileAccessor(d,strategy=rnd.choice(["in memory","on disk"])) if sharded else FileAccessor(d,flat=rnd.random()<0.5,gzip=rnd.random()<0.5)
        with contextlib.redirect_stdout(io.StringIO()):
            W=pio.get_IO_for_new_dataset(copy.deepcopy(info),A,encoder_options=eo)
            todo=[(sc,c) for sc in scales for cs in sc["chunk_sizes"][:1] for c in grid(sc,cs)]
            rnd.shuffle(todo); todo=todo[:60]; model={}
            rng=np.random.default_rng(t)
            for sc,c in todo:
                shp=(nc,c[5]-c[4],c[3]-c[2],c[1]-c[0])
                if enc=="jpeg": a=smooth(shp,rng)
                elif dt=="float32": a=rng.normal(size=shp).astype(np.float32)
                else: a=rng.integers(0,min(np.iinfo(dt).max,2**40),size=shp,dtype=np.uint64).astype(dt)
                if rnd.random()<0.3: a=np.asfortranarray(a)
                W.write_chunk(a,sc["key"],c); model[(sc["key"],c)]=np.array(a)
            # off-grid attempts
            before=tree(d) if not sharded else None
            for k in range(12):
                sc=rnd.choice(scales); cs=sc["chunk_sizes"][0]; base=list(rnd.choice(list(grid(sc,cs))))
                m=rnd.choice(["neg","beyond","misalign","wrongmax","swap","np"])
                if m=="neg": a_=rnd.randrange(3); base[2*a_]-=cs[a_]*rnd.randint(1,2); base[2*a_+1]=min(base[2*a_]+cs[a_],sc["size"][a_])
                elif m=="beyond": a_=rnd.randrange(3); k_=-(-sc["size"][a_]//cs[a_])+rnd.randint(0,2); base[2*a_]=k_*cs[a_]; base[2*a_+1]=min(base[2*a_]+cs[a_],sc["size"][a_])
                elif m=="misalign": a_=rnd.randrange(3); base[2*a_]+=1
                elif m=="wrongmax": a_=rnd.randrange(3); base[2*a_+1]+=rnd.choice([-1,1])
                elif m=="swap": base=[base[2],base[3],base[0],base[1],base[4],base[5]]
                else: base=[np.int64(v) for v in base]
                c=tuple(base)
                if ongrid(sc,c): continue
                shp=(nc,max(1,abs(int(c[5])-int(c[4]))),max(1,abs(int(c[3])-int(c[2]))),max(1,abs(int(c[1])-int(c[0]))))
                try:
                    W.write_chunk(np.zeros(shp,dt),sc["key"],c); note("OFFGRID-ACCEPTED",(m,c,sc["size"],cs))
                except Exception as e: res["offgrid-rejected:"+type(e).__name__]+=1
            if before is not None and tree(d)!=before: note("OFFGRID-TOUCHED-DISK")
            if sharded: A.close()
        for R in ([W] if not sharded else [])+[pio.get_IO_for_existing_dataset(acc.get_accessor_for_url(d),encoder_options=eo)]:
            keys=list(model); rnd.shuffle(keys)
            for k in keys:
                g=R.read_chunk(*k); a=model[k]
                if g.shape!=a.shape or g.dtype.newbyteorder("=")!=a.dtype.newbyteorder("="): note("shape/dtype",(enc,dt,g.shape,a.shape,g.dtype))
                elif enc=="jpeg":
                    e=np.abs(g.astype(int)-a.astype(int)); 
                    if e.max()>40 or e.mean()>5: note("jpeg-bound",(e.max(),e.mean(),a.shape,eo))
                    else: res["chunk-ok"]+=1
                elif not np.array_equal(g,a): note("MISMATCH",(enc,dt,sharded,k))
                else: res["chunk-ok"]+=1
        res["histories"]+=1
    except Exception as e:
        import traceback; note("EXC:"+type(e).__name__+":"+str(e)[:70],(enc,dt,sharded,traceback.format_exc().splitlines()[-3][:100]))
    finally: shutil.rmtree(d)
print(dict(res)); print(ex)
