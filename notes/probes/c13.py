import numpy as np, json, os, shutil, subprocess, sys, itertools, collections, copy, hashlib
from neuroglancer_scripts import accessor as acc, precomputed_io as pio
from neuroglancer_scripts.sharded_file_accessor import ShardedFileAccessor
env=dict(os.environ)
def run(*a):
    r=subprocess.run([sys.executable,"-m",*a],capture_output=True,text=True,env=env,timeout=120); return r
def chunks(sc):
    X,Y,Z=sc["size"]; cs=sc["chunk_sizes"][0]
    for x,y,z in itertools.product(range(0,X,cs[0]),range(0,Y,cs[1]),range(0,Z,cs[2])): yield (x,min(x+cs[0],X),y,min(y+cs[1],Y),z,min(z+cs[2],Z))
def readall(d):
    a=acc.get_accessor_for_url(d); io_=pio.get_IO_for_existing_dataset(a); out={}
    for sc in io_.info["scales"]:
        for c in chunks(sc): out[(sc["key"],c)]=np.array(io_.read_chunk(sc["key"],c))
    return out,io_.info
def tree(d):
    h=hashlib.sha1()
    for root,ds,fs in sorted(os.walk(d)):
        for f in sorted(fs): h.update(os.path.join(root,f).encode()); h.update(open(os.path.join(root,f),"rb").read())
    return h.hexdigest()
SH={"@type":"neuroglancer_uint64_sharded_v1","minishard_bits":2,"shard_bits":1,"hash":"identity","minishard_index_encoding":"gzip","data_encoding":"gzip","preshift_bits":1}
def mkinfo(dt,nc,enc,sharded,cubic=True):
    scs=[]
    for i,(size,cs) in enumerate([([40,33,20],[16,16,16] if cubic else [16,8,4]),([20,17,10],[8,8,8] if cubic else [8,8,2])]):
        sc={"key":f"s{i}","size":size,"chunk_sizes":[cs],"resolution":[2**i]*3,"voxel_offset":[0,0,0],"encoding":enc}
        if enc=="compressed_segmentation": sc["compressed_segmentation_block_size"]=[8,8,8]
        if sharded: sc["sharding"]=copy.deepcopy(SH)
        scs.append(sc)
    return {"type":"image","data_type":dt,"num_channels":nc,"scales":scs}
def build(d,info,opts):
    shutil.rmtree(d,ignore_errors=True)
    a=acc.get_accessor_for_url(d,opts); io_=pio.get_IO_for_new_dataset(copy.deepcopy(info),a)
    rng=np.random.default_rng(0)
    for sc in info["scales"]:
        for c in chunks(sc):
            shp=(info["num_channels"],c[5]-c[4],c[3]-c[2],c[1]-c[0])
            io_.write_chunk(rng.integers(0,200,shp).astype(info["data_type"]),sc["key"],c)
    if hasattr(a,"close"): a.close()
res=collections.Counter(); bad=[]
srcs=[("raw-deep-gz",mkinfo("uint8",1,"raw",False,False),{}),("raw-flat",mkinfo("uint16",2,"raw",False),{"flat":True,"gzip":False}),("raw-sharded",mkinfo("uint8",1,"raw",True),{"sharding":True}),("cseg",mkinfo("uint32",1,"compressed_segmentation",False),{})]
for sname,sinfo,sopts in srcs:
    build("src",sinfo,sopts); sdata,_=readall("src"); h0=tree("src")
    dests=[("copy",None,["--copy-info"]),("copy-flat",None,["--copy-info","--flat","--no-gzip"])]
    for enc in ("raw","compressed_segmentation"):
        for sharded in (False,True):
            for wide in (False,True):
                di=copy.deepcopy(sinfo)
                wd={"uint8":"uint16","uint16":"uint32","uint32":"uint64"}[sinfo["data_type"]] if wide else sinfo["data_type"]
                if enc=="compressed_segmentation" and wd not in ("uint32","uint64"): wd="uint32"
                di["data_type"]=wd
                for sc in di["scales"]:
                    sc["encoding"]=enc
                    if enc=="compressed_segmentation": sc["compressed_segmentation_block_size"]=[8,8,8]
                    else: sc.pop("compressed_segmentation_block_size",None)
                    if sharded: sc["sharding"]=copy.deepcopy(SH)
                    else: sc.pop("sharding",None)
                if sharded and any(len(set(sc["chunk_sizes"][0]))!=1 for sc in di["scales"]): continue
                dests.append((f"{enc}-{'sh' if sharded else 'un'}-{wd}",di,[]))
    for dname,dinfo,args in dests:
        shutil.rmtree("dst",ignore_errors=True)
        if dinfo is not None:
            os.makedirs("dst"); json.dump(dinfo,open("dst/info","w"))
        r=run("neuroglancer_scripts.scripts.convert_chunks",*args,"src","dst")
        if r.returncode!=0: res[(sname,dname,"exit%d"%r.returncode)]+=1; bad.append((sname,dname,r.stderr.strip().splitlines()[-1][:100])); continue
        try:
            ddata,_=readall("dst")
            ok=set(ddata)==set(sdata) and all(np.array_equal(ddata[k].astype(np.uint64),sdata[k].astype(np.uint64)) for k in sdata)
        except Exception as e: ok=False; bad.append((sname,dname,"read:"+type(e).__name__+str(e)[:60]))
        res[(sname,dname,"ok" if ok else "BAD")]+=1
        if tree("src")!=h0: bad.append((sname,dname,"SOURCE CHANGED"))
print(collections.Counter(v for (_,_,v),n in res.items() for _ in range(n)))
for b in bad: print(b)
