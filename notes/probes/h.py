import http.server, threading, os, re, json, traceback, shutil, numpy as np, itertools, gzip, collections
from neuroglancer_scripts import accessor as acc, precomputed_io as pio
from neuroglancer_scripts.sharded_file_accessor import ShardedFileAccessor
from neuroglancer_scripts.file_accessor import FileAccessor
ROOT="/tmp/ngs-p/www"; shutil.rmtree(ROOT,ignore_errors=True); os.makedirs(ROOT)
MODE={"fault":None}
class H(http.server.BaseHTTPRequestHandler):
    protocol_version="HTTP/1.1"
    def log_message(self,*a): pass
    def _resolve(self):
        path=self.path.split("?")[0].lstrip("/")
        cands=[path]
        m=re.match(r"^(.*)/(\d+-\d+)_(\d+-\d+)_(\d+-\d+)$",path)
        if m: cands.append("%s/%s/%s/%s"%m.groups())
        for c in cands:
            p=os.path.join(ROOT,c)
            if os.path.isfile(p+".gz"): return p+".gz",True
            if os.path.isfile(p): return p,False
        return None,False
    def _send(self,code,body=b"",headers=()):
        self.send_response(code)
        for k,v in headers: self.send_header(k,v)
        self.send_header("Content-Length",str(len(body))); self.end_headers()
        if self.command!="HEAD": self.wfile.write(body)
    def do_HEAD(self): self.do_GET()
    def do_GET(self):
        f=MODE["fault"]
        if f=="500": return self._send(500,b"oops")
        p,gz=self._resolve()
        if not p: return self._send(404,b"<html>not found</html>")
        data=open(p,"rb").read(); hdr=[("Content-Encoding","gzip")] if gz else []
        rng=self.headers.get("Range")
        if rng and not gz:
            m=re.match(r"bytes=(\d+)-(\d+)",rng); a,b=int(m[1]),int(m[2])
            if f=="ignore-range": return self._send(200,data)
            part=data[a:b+1]
            if f=="short": part=part[:-1]
            if f=="long": part=part+b"x"
            return self._send(206,part,[("Content-Range",f"bytes {a}-{a+len(part)-1}/{len(data)}")])
        if f=="drop" and self.command=="GET":
            self.send_response(200); self.send_header("Content-Length",str(len(data)+10)); self.end_headers(); self.wfile.write(data[:len(data)//2]); self.wfile.flush(); import socket; self.close_connection=True; self.connection.shutdown(socket.SHUT_RDWR); return
        self._send(200,data,hdr)
s=http.server.ThreadingHTTPServer(("127.0.0.1",0),H); threading.Thread(target=s.serve_forever,daemon=True).start()
base=f"http://127.0.0.1:{s.server_address[1]}"
def mkinfo(sharding=None,cs=16):
    sc={"key":"s0","size":[40,33,20],"chunk_sizes":[[cs]*3],"resolution":[1,1,1],"voxel_offset":[0,0,0],"encoding":"raw"}
    if sharding: sc["sharding"]=sharding
    return {"type":"image","data_type":"uint16","num_channels":2,"scales":[sc]}
def chunks(info):
    sc=info["scales"][0]; X,Y,Z=sc["size"]; cs=sc["chunk_sizes"][0][0]
    for x,y,z in itertools.product(range(0,X,cs),range(0,Y,cs),range(0,Z,cs)): yield (x,min(x+cs,X),y,min(y+cs,Y),z,min(z+cs,Z))
vol=np.random.default_rng(0).integers(0,60000,(2,20,33,40),dtype=np.uint16)
def build(name,A,info):
    io_=pio.get_IO_for_new_dataset(json.loads(json.dumps(info)),A)
    for c in chunks(info): io_.write_chunk(vol[:,c[4]:c[5],c[2]:c[3],c[0]:c[1]],"s0",c)
    if hasattr(A,"close"): A.close()
sh={"@type":"neuroglancer_uint64_sharded_v1","minishard_bits":2,"shard_bits":1,"hash":"identity","minishard_index_encoding":"gzip","data_encoding":"gzip","preshift_bits":1}
build("flat",FileAccessor(ROOT+"/flat",flat=True,gzip=False),mkinfo())
build("deepgz",FileAccessor(ROOT+"/deepgz",flat=False,gzip=True),mkinfo())
build("sh",ShardedFileAccessor(ROOT+"/sh"),mkinfo(sh))
# legacy split
shutil.copytree(ROOT+"/sh",ROOT+"/legacy")
for fn in os.listdir(ROOT+"/legacy/s0"):
    p=ROOT+"/legacy/s0/"+fn; b=open(p,"rb").read(); n=16<<2
    open(p[:-6]+".index","wb").write(b[:n]); open(p[:-6]+".data","wb").write(b[n:]); os.remove(p)
res=collections.Counter()
for name in ("flat","deepgz","sh","legacy"):
    for url in (f"{base}/{name}",f"{base}/{name}/",f"precomputed://{base}/{name}"):
        try:
            h=acc.get_accessor_for_url(url); l=acc.get_accessor_for_url(ROOT+"/"+name)
            info=json.loads(l.fetch_file("info"))
            assert h.fetch_file("info")==l.fetch_file("info")
            for c in chunks(info):
                assert h.fetch_chunk("s0",c)==l.fetch_chunk("s0",c)
            res[(name,type(h).__name__,"ok")]+=1
        except Exception as e: res[(name,type(e).__name__,str(e)[:60])]+=1
print(dict(res))
c0=next(chunks(mkinfo()))
for name in ("flat","sh"):
  for f in ("500","short","long","ignore-range","drop",None):
    try:
        MODE["fault"]=None; h=acc.get_accessor_for_url(f"{base}/{name}"); MODE["fault"]=f
        r=h.fetch_chunk("s0",c0); print(name,f,"RETURNED",len(r), r==acc.get_accessor_for_url(ROOT+"/"+name).fetch_chunk("s0",c0))
    except Exception as e: print(name,f,type(e).__name__,str(e)[:70])
MODE["fault"]=None
h=acc.get_accessor_for_url(f"{base}/flat")
try: print(h.fetch_chunk("s0",(1000,1016,0,16,0,16)))
except Exception as e: print("missing:",type(e).__name__)
s.shutdown()
