import numpy as np, copy, collections, itertools, logging, io, contextlib
logging.disable(logging.CRITICAL)
from neuroglancer_scripts import dyadic_pyramid as dp, downscaling as ds
out=collections.Counter(); ex={}
class Mem:
    def __init__(s,info): s.info=info; s.d={}
    def scale_is_lossy(s,k): return False
    def read_chunk(s,k,c): return s.d[(k,c)]
    def write_chunk(s,a,k,c): s.d[(k,tuple(c))]=np.array(a)
def allchunks(sc):
    X,Y,Z=sc["size"]; cs=sc["chunk_sizes"][0]
    for x in range(0,X,cs[0]):
      for y in range(0,Y,cs[1]):
        for z in range(0,Z,cs[2]):
            yield (x,min(x+cs[0],X),y,min(y+cs[1],Y),z,min(z+cs[2],Z))
def read(m,sc):
    X,Y,Z=sc["size"]; a=np.zeros((1,Z,Y,X),np.uint32)
    for c in allchunks(sc): a[:,c[4]:c[5],c[2]:c[3],c[0]:c[1]]=m.read_chunk(sc["key"],c)
    return a
rng=np.random.default_rng(0); dn=ds.StridingDownscaler()
for da,db in itertools.product(range(0,6),range(0,6)):
  for tcs in (2,4,8):
    for size in ([40,40,40],[90,33,21]):
        res=[1.0,float(2**da),float(2**db)]
        info={"type":"image","data_type":"uint32","num_channels":1,"scales":[{"size":size,"resolution":res,"voxel_offset":[0,0,0],"encoding":"raw"}]}
        try: info=dp.fill_scales_for_dyadic_pyramid(info,tcs)
        except AssertionError: out["gen-assert"]+=1; continue
        m=Mem(info); s0=info["scales"][0]
        vol=rng.integers(0,2**32-1,size=(1,size[2],size[1],size[0]),dtype=np.uint32)
        for c in allchunks(s0): m.write_chunk(vol[:,c[4]:c[5],c[2]:c[3],c[0]:c[1]],s0["key"],c)
        status="ok"
        for i in range(len(info["scales"])-1):
            try:
                with contextlib.redirect_stderr(io.StringIO()):
                    dp.compute_dyadic_downscaling(info,i,dn,m,m)
            except Exception as e: status="err:"+type(e).__name__; break
            a=read(m,info["scales"][i]); b=read(m,info["scales"][i+1])
            f=[1 if x==y else 2 for x,y in zip(info["scales"][i]["size"],info["scales"][i+1]["size"])]
            if not np.array_equal(dn.downscale(a,f),b):
                status="WRONG"; ex.setdefault("WRONG",(res,size,tcs,i,info["scales"][i]["chunk_sizes"],info["scales"][i+1]["chunk_sizes"],f)); break
        out[status]+=1; 
        if status.startswith("err"): ex.setdefault(status,(res,size,tcs,i,info["scales"][i]["chunk_sizes"],info["scales"][i+1]["chunk_sizes"]))
print(out); print(ex)
