import numpy as np, copy, tempfile, shutil, collections, itertools, logging, io, contextlib, random, os, json
logging.disable(logging.CRITICAL)
from neuroglancer_scripts import dyadic_pyramid as dp, precomputed_io as pio, downscaling as ds, accessor as acc
from neuroglancer_scripts.file_accessor import FileAccessor
from neuroglancer_scripts.sharded_file_accessor import ShardedFileAccessor
class NPProxy:
    def __init__(s,poison): s.poison=poison; s.count=0
    def __getattr__(s,k): return getattr(np,k)
    def empty(s,shape,dtype=float,**kw):
        s.count+=1; a=np.empty(shape,dtype=dtype,**kw); a.view(np.uint8)[...]=s.poison; return a
def allchunks(sc):
    X,Y,Z=sc["size"]; cs=sc["chunk_sizes"][0]
    for x,y,z in itertools.product(range(0,X,cs[0]),range(0,Y,cs[1]),range(0,Z,cs[2])): yield (x,min(x+cs[0],X),y,min(y+cs[1],Y),z,min(z+cs[2],Z))
def read(io_,sc,nc,dt):
    X,Y,Z=sc["size"]; a=np.zeros((nc,Z,Y,X),dt)
    for c in allchunks(sc): a[:,c[4]:c[5],c[2]:c[3],c[0]:c[1]]=io_.read_chunk(sc["key"],c)
    return a
rnd=random.Random(2); res=collections.Counter(); ex={}
SH={"@type":"neuroglancer_uint64_sharded_v1","minishard_bits":1,"shard_bits":1,"hash":"identity","minishard_index_encoding":"raw","data_encoding":"raw","preshift_bits":1}
for t in range(int(os.environ.get("N","120"))):
    resn=rnd.choice([[1,1,1],[1,1,2],[1,2,2],[1,1,4],[2,1,9],[1,1.5,2.9],[3,1,1],[1,16,16],[1,4,32]])
    size=[rnd.randint(1,60) for _ in range(3)]; tcs=rnd.choice([2,4,8,16]); nc=rnd.choice([1,1,2])
    method=rnd.choice(["average","average","stride","majority"]); dt=rnd.choice(["uint8","uint16","uint32","uint64","float32"])
    enc="compressed_segmentation" if dt in("uint32","uint64") and rnd.random()<0.5 else "raw"
    if method=="majority": size=[min(s,24) for s in size]
    sharded=rnd.random()<0.3
    info={"type":"image","data_type":dt,"num_channels":nc,"scales":[{"size":size,"resolution":resn,"voxel_offset":[0,0,0],"encoding":enc}]}
    if enc!="raw": info["scales"][0]["compressed_segmentation_block_size"]=[4,4,4]
    if sharded: info["scales"][0]["sharding"]=copy.deepcopy(SH)
    try: info=dp.fill_scales_for_dyadic_pyramid(info,tcs)
    except AssertionError: res["gen-assert"]+=1; continue
    if sharded and any(len(set(s["chunk_sizes"][0]))!=1 for s in info["scales"]): sharded=False; [s.pop("sharding") for s in info["scales"]]
    rng=np.random.default_rng(t)
    vol=(rng.integers(0,250,size=(nc,size[2],size[1],size[0]))).astype(dt) if method!="majority" else rng.integers(0,4,size=(nc,size[2],size[1],size[0])).astype(dt)
    outs=[]; status=None
    for poison in (0x55,0xAA):
        d=tempfile.mkdtemp(dir="/tmp/ngs-p")
        try:
            A=ShardedFileAccessor(d) if sharded else FileAccessor(d,flat=rnd.random()<0.5,gzip=rnd.random()<0.5)
            io_=pio.get_IO_for_new_dataset(copy.deepcopy(info),A)
            s0=info["scales"][0]
            for c in allchunks(s0): io_.write_chunk(vol[:,c[4]:c[5],c[2]:c[3],c[0]:c[1]],s0["key"],c)
            if sharded: A.close()
            proxy=NPProxy(poison); dp.np=proxy
            try:
                with contextlib.redirect_stderr(io.StringIO()), contextlib.redirect_stdout(io.StringIO()):
                    dp.compute_dyadic_scales(io_,ds.get_downscaler(method,info,{"outside_value":rnd.choice([None,None,0.0]) if poison==0x55 else None} if False else {}))
                status="done"
            except Exception as e: status="err:"+type(e).__name__
            finally: dp.np=np
            if status=="done":
                R=pio.get_IO_for_existing_dataset(acc.get_accessor_for_url(d))
                levels=[read(R,sc,nc,dt) for sc in info["scales"]]; outs.append(levels)
                if proxy.count==0 and len(info["scales"])>1: res["poison-not-hit"]+=1
        finally: shutil.rmtree(d)
    if status!="done": res[status]+=1; ex.setdefault(status,(resn,size,tcs)); continue
    if any(not np.array_equal(a,b) for a,b in zip(*outs)): res["UNINIT"]+=1; ex.setdefault("UNINIT",(resn,size,tcs)); continue
    D=ds.get_downscaler(method,info,{}); ok=True
    for i in range(len(info["scales"])-1):
        f=[1 if x==y else 2 for x,y in zip(info["scales"][i]["size"],info["scales"][i+1]["size"])]
        if not np.array_equal(D.downscale(outs[0][i],f),outs[0][i+1]): ok=False; ex.setdefault("WRONG",(resn,size,tcs,method,dt,i)); break
    res["ok" if ok else "WRONG"]+=1; res["levels"]+=len(info["scales"])
print(dict(res)); print(ex)
