import builtins, io, os, sys, tempfile, shutil, json, collections, numpy as np, contextlib, itertools
from neuroglancer_scripts.file_accessor import FileAccessor
from neuroglancer_scripts.sharded_file_accessor import ShardedFileAccessor
from neuroglancer_scripts import accessor as acc, precomputed_io as pio
from neuroglancer_scripts.accessor import DataAccessError
class Hook:
    n=0; crash_at=None; when="before"; on=False
    @classmethod
    def point(c,name):
        if not c.on: return
        c.n+=1
        if c.crash_at==c.n and c.when=="before": os._exit(77)
    @classmethod
    def after(c):
        if c.on and c.crash_at==c.n and c.when=="after": os._exit(77)
_open=io.open; _mkdir=os.mkdir
class F:
    def __init__(s,f): s._f=f
    def write(s,b): Hook.point("write"); r=s._f.write(b); Hook.after(); return r
    def read(s,*a): return s._f.read(*a)
    def flush(s): Hook.point("flush"); r=s._f.flush(); Hook.after(); return r
    def seek(s,*a): Hook.point("seek"); r=s._f.seek(*a); Hook.after(); return r
    def close(s): Hook.point("close"); r=s._f.close(); Hook.after(); return r
    def __enter__(s): return s
    def __exit__(s,*a): s.close()
    def __getattr__(s,k): return getattr(s._f,k)
    def __iter__(s): return iter(s._f)
def my_open(file,mode="r",*a,**k):
    if Hook.on and any(m in mode for m in "wxa"):
        Hook.point("open"); f=F(_open(file,mode,*a,**k)); Hook.after(); return f
    return _open(file,mode,*a,**k)
def my_mkdir(p,*a,**k): Hook.point("mkdir"); r=_mkdir(p,*a,**k); Hook.after(); return r
builtins.open=my_open; io.open=my_open; os.mkdir=my_mkdir
def info(enc,sharding=None):
    sc={"key":"k","size":[16,16,8],"chunk_sizes":[[8,8,8]],"resolution":[1,1,1],"voxel_offset":[0,0,0],"encoding":enc}
    if enc=="compressed_segmentation": sc["compressed_segmentation_block_size"]=[8,8,8]
    if sharding: sc["sharding"]=sharding
    return {"type":"image","data_type":"uint32","num_channels":1,"scales":[sc]}
COORDS=[(x,x+8,y,y+8,0,8) for x in (0,8) for y in (0,8)]
rng=np.random.default_rng(0); DATA={c:rng.integers(0,5,(1,8,8,8)).astype(np.uint32) for c in COORDS}
def scenario(d,kind):
    enc,store=kind
    if store.startswith("sh"):
        sp={"@type":"neuroglancer_uint64_sharded_v1","minishard_bits":1,"shard_bits":0,"hash":"identity","minishard_index_encoding":store.split(":")[1],"data_encoding":store.split(":")[1],"preshift_bits":0}
        A=ShardedFileAccessor(d,strategy="in memory"); I=info(enc,sp)
    else:
        A=FileAccessor(d,flat=True,gzip=(store=="gz")); I=info(enc)
    return A,I
def writer(d,kind):
    A,I=scenario(d,kind)
    with contextlib.redirect_stdout(io.StringIO()):
        W=pio.get_IO_for_new_dataset(I,A)
        for c in COORDS: W.write_chunk(DATA[c],"k",c)
        if hasattr(A,"close"): A.close()
res=collections.Counter(); ex={}
for kind in itertools.product(["raw","compressed_segmentation"],["plain","gz","sh:raw","sh:gzip"]):
    d=tempfile.mkdtemp(dir="/tmp/ngs-p"); Hook.n=0; Hook.crash_at=None; Hook.on=True; writer(d,kind); Hook.on=False; K=Hook.n; shutil.rmtree(d)
    for k in range(1,K+1):
        for when in ("before","after"):
            d=tempfile.mkdtemp(dir="/tmp/ngs-p")
            pid=os.fork()
            if pid==0:
                Hook.n=0; Hook.crash_at=k; Hook.when=when; Hook.on=True
                try: writer(d,kind)
                finally: os._exit(0)
            _,st=os.waitpid(pid,0)
            try:
                try:
                    R=pio.get_IO_for_existing_dataset(acc.get_accessor_for_url(d))
                except Exception as e:
                    res[(kind,"no-dataset:"+type(e).__name__)]+=1; continue
                for c in COORDS:
                    try:
                        g=R.read_chunk("k",c)
                        if np.array_equal(g,DATA[c]): res[(kind,"complete")]+=1
                        else: res[(kind,"WRONG-DATA")]+=1; ex.setdefault((kind,"WRONG"),(k,when,c))
                    except DataAccessError: res[(kind,"absent:DAE")]+=1
                    except Exception as e: res[(kind,"invalid:"+type(e).__name__)]+=1
            finally: shutil.rmtree(d)
    res[(kind,"K")]=K
for k in sorted(res,key=str): print(k,res[k])
print(ex)
