import json, os, shutil, tempfile, struct, random, itertools, zlib, math, collections, hashlib, io, contextlib
from neuroglancer_scripts.sharded_file_accessor import ShardedFileAccessor
from neuroglancer_scripts import accessor as acc
def morton(pos, grid):
    bits=[max(0,(g-1).bit_length()) for g in grid]; code=0; j=0
    for i in range(max(bits) if bits else 0):
        for d in range(3):
            if i<bits[d]:
                code|=((pos[d]>>i)&1)<<j; j+=1
    return code
def dec(b,e):
    if e=="raw": return b
    return zlib.decompress(b,47)
def spec_read(d,key,spec,cid):
    mb,sb,pb=spec["minishard_bits"],spec["shard_bits"],spec["preshift_bits"]
    h=cid>>pb; mini=h&((1<<mb)-1); shard=(h>>mb)&((1<<sb)-1)
    name=format(shard,"x").zfill(math.ceil(sb/4))+".shard"
    p=os.path.join(d,key,name)
    if not os.path.exists(p): return ("nofile",name)
    f=open(p,"rb").read(); n=16<<mb
    if len(f)<n: return ("short",)
    s,e=struct.unpack_from("<QQ",f,16*mini)
    if s==e: return ("emptyminishard",)
    if not (0<=s<=e<=len(f)-n): return ("badrange",s,e)
    idx=dec(f[n+s:n+e],spec["minishard_index_encoding"])
    if len(idx)%24: return ("badidxlen",)
    k=len(idx)//24; a=struct.unpack("<%dQ"%(3*k),idx)
    ids=a[:k]; offs=a[k:2*k]; sizes=a[2*k:]
    cur=0; pos=0; prev_end=0; found=None; last=None
    for i in range(k):
        cur=ids[i] if i==0 else cur+ids[i]
        if i>0 and ids[i]==0: return ("nonincreasing",)
        start=prev_end+offs[i]; end=start+sizes[i]
        if end>len(f)-n: return ("outside",)
        if cur==cid: found=(start,end)
        prev_end=end
    if found is None: return ("notlisted",)
    return ("ok",dec(f[n+found[0]:n+found[1]],spec["data_encoding"]))
rnd=random.Random(int(os.environ.get("SEED","1"))); res=collections.Counter(); ex={}
for t in range(int(os.environ.get("N","400"))):
    cs=rnd.choice([8,16]); grid=[rnd.randint(1,5) for _ in range(3)]
    size=[g*cs-rnd.randint(0,cs-1) for g in grid]
    spec={"@type":"neuroglancer_uint64_sharded_v1","minishard_bits":rnd.choice([0,1,2,3]),"shard_bits":rnd.choice([0,1,2,3,5]),"hash":"identity",
          "minishard_index_encoding":rnd.choice(["raw","gzip"]),"data_encoding":rnd.choice(["raw","gzip"]),"preshift_bits":rnd.choice([0,1,2,3,6])}
    info={"type":"image","data_type":"uint8","num_channels":1,"scales":[{"key":"s0","size":size,"chunk_sizes":[[cs]*3],"resolution":[1,1,1],"voxel_offset":[0,0,0],"encoding":"raw","sharding":spec}]}
    allpos=list(itertools.product(*(range(g) for g in grid)))
    sub=[p for p in allpos if rnd.random()<rnd.choice([1.0,0.7,0.3])] or [rnd.choice(allpos)]
    hashes=set(); 
    for rep in range(3):
        rnd.shuffle(sub); d=tempfile.mkdtemp(dir="/tmp/ngs-p")
        try:
            json.dump(info,open(d+"/info","w"))
            a=ShardedFileAccessor(d,strategy=rnd.choice(["in memory","on disk"])); data={}
            with contextlib.redirect_stdout(io.StringIO()):
                for p in sub:
                    c=tuple(v for i in range(3) for v in (p[i]*cs,min((p[i]+1)*cs,size[i])))
                    b=("%r"%(p,)).encode()*rnd.randint(0,3); data[p]=(c,b); a.store_chunk(b,"s0",c)
                a.close()
            hh=hashlib.sha1()
            for fn in sorted(os.listdir(d+"/s0")): hh.update(fn.encode()); hh.update(open(d+"/s0/"+fn,"rb").read())
            hashes.add(hh.hexdigest())
            r=acc.get_accessor_for_url(d)
            for p,(c,b) in data.items():
                sr=spec_read(d,"s0",spec,morton(p,grid))
                if sr[0]!="ok" or sr[1]!=b: res["spec:"+sr[0]]+=1; ex.setdefault("spec:"+sr[0],(grid,spec,sorted(sub)[:6],p))
                else: res["spec-ok"]+=1
                try:
                    g=r.fetch_chunk("s0",c)
                    if g!=b: res["pkg-mismatch"]+=1; ex.setdefault("pkg-mismatch",(grid,spec,p))
                    else: res["pkg-ok"]+=1
                except Exception as e: res["pkg-exc:"+type(e).__name__]+=1; ex.setdefault("pkg-exc:"+type(e).__name__,(grid,spec,sorted(sub)[:6],p,str(e)[:80]))
            for p in allpos:
                if p not in data:
                    c=tuple(v for i in range(3) for v in (p[i]*cs,min((p[i]+1)*cs,size[i])))
                    try: g=r.fetch_chunk("s0",c); res["absent-returned:%s"%("empty" if g==b"" else "DATA")]+=1
                    except Exception as e: res["absent-exc:"+type(e).__name__]+=1
        except Exception as e:
            res["write-exc:"+type(e).__name__]+=1; ex.setdefault("write-exc:"+type(e).__name__,(grid,spec,sub[:6],str(e)[:100]))
        finally: shutil.rmtree(d)
    if len(hashes)>1: res["order-dependent-bytes"]+=1; ex.setdefault("order-dependent-bytes",(grid,spec,sorted(sub)[:8]))
print(dict(res)); 
for k,v in ex.items(): print(k,v)
