import numpy as np, random, collections, itertools, struct, warnings
from fractions import Fraction
warnings.simplefilter("ignore")
from neuroglancer_scripts import downscaling as ds, data_types as dt
def rhe(fr):
    fl=fr.numerator//fr.denominator; rem=fr-fl
    return fl+1 if (rem>Fraction(1,2) or (rem==Fraction(1,2) and fl%2==1)) else fl
rnd=random.Random(5); res=collections.Counter(); bad=[]
NG=["uint8","uint16","uint32","uint64","float32"]
def vals(dtype,n,rng):
    d=np.dtype(dtype)
    if d.kind=="f": return (rng.integers(-4000,4000,size=n)/rnd.choice([1,2,4,16])).astype(d)
    ii=np.iinfo(d); pool=[ii.min,ii.min+1,ii.max,ii.max-1,0,1,2,3,127,128,255,256]
    pool=[p for p in pool if ii.min<=p<=ii.max]
    if rnd.random()<0.5: return np.array([rnd.choice(pool) for _ in range(n)],dtype=d)
    hi=min(ii.max,2**50); return rng.integers(ii.min if ii.min<0 else 0,hi,size=n,endpoint=True).astype(d)
# ---- C07
for t in range(3000):
    dtype=rnd.choice(NG); shape=(rnd.randint(1,2),rnd.randint(1,5),rnd.randint(1,5),rnd.randint(1,5))
    rng=np.random.default_rng(t); a=vals(dtype,int(np.prod(shape)),rng).reshape(shape)
    method=rnd.choice(["avg","avg","maj","stride"])
    if method=="avg":
        f=tuple(rnd.choice([1,2]) for _ in range(3)); ov=rnd.choice([None,None,0.0,255.0,300.0,7.5]); D=ds.AveragingDownscaler(ov)
    else:
        f=tuple(rnd.randint(1,4) for _ in range(3)); D=ds.MajorityDownscaler() if method=="maj" else ds.StridingDownscaler(); ov=None
    r=D.downscale(a,f)
    C,Z,Y,X=shape; fx,fy,fz=f; oz,oy,ox=-(-Z//fz),-(-Y//fy),-(-X//fx)
    ok=(r.shape==(C,oz,oy,ox) and r.dtype==a.dtype); why="shape"
    if ok:
        for c,z,y,x in itertools.product(range(C),range(oz),range(oy),range(ox)):
            blk=[]
            for dz,dy,dx in itertools.product(range(fz),range(fy),range(fx)):
                zz,yy,xx=z*fz+dz,y*fy+dy,x*fx+dx
                if method=="avg":
                    # padding is applied axis by axis: edge replicate or constant
                    if ov is None: blk.append(Fraction(a[c,min(zz,Z-1),min(yy,Y-1),min(xx,X-1)].item()))
                    else: blk.append(Fraction(a[c,zz,yy,xx].item()) if (zz<Z and yy<Y and xx<X) else Fraction(ov))
                elif zz<Z and yy<Y and xx<X: blk.append(a[c,zz,yy,xx].item())
            got=r[c,z,y,x].item()
            if method=="avg":
                m=sum(blk)/len(blk)
                if a.dtype.kind=="u":
                    ii=np.iinfo(a.dtype); exp=min(max(rhe(m),ii.min),ii.max)
                    if got!=exp: ok=False; why=("avg",float(m),got,exp,dtype,f,ov); break
                else:
                    if not np.isclose(got,float(m),rtol=1e-6,atol=1e-6): ok=False; why=("avgf",float(m),got); break
            elif method=="maj":
                cnt=collections.Counter(blk); mx=max(cnt.values()); exp=min(k for k,v in cnt.items() if v==mx)
                if got!=exp: ok=False; why=("maj",got,exp); break
            else:
                if got!=a[c,z*fz,y*fy,x*fx].item(): ok=False; why=("stride",); break
    big=(dtype=="uint64" and a.max()>2**53)
    res[("C07",method,"ok" if ok else ("KF-u64" if big else "BAD"))]+=1
    if not ok and not big: bad.append(why)
# ---- C11
INS=["int8","uint8","int16","uint16","int32","uint32","int64","uint64","float32","float64"]
def exact(v,outd):
    fr=Fraction(v) if not isinstance(v,int) else Fraction(v)
    if outd.kind=="u":
        ii=np.iinfo(outd); return min(max(rhe(fr),ii.min),ii.max)
    return struct.unpack("f",struct.pack("f",float(fr)))[0] if abs(float(fr))<3.4e38 else None
for t in range(4000):
    i=rnd.choice(INS); o=rnd.choice(NG); ind=np.dtype(i); outd=np.dtype(o); n=rnd.randint(1,12); rng=np.random.default_rng(t)
    if ind.kind=="f":
        base=[0.5,1.5,2.5,-0.5,254.5,255.5,65535.5,2.0**32,2.0**32-0.5,-1.0,1e9,2.0**53,2.0**63,1e19,float(np.iinfo(outd).max) if outd.kind=="u" else 1.0]
        a=np.array([rnd.choice(base)+rnd.choice([0,0,0.25,-0.25,1,-1]) for _ in range(n)],dtype=ind)
    else:
        ii=np.iinfo(ind); oi=np.iinfo(outd) if outd.kind=="u" else None
        base=[ii.min,ii.max,0,1,-1,255,256,65535,65536,2**24+1,2**32-1,2**32,2**53+1,2**63-1,2**63]
        base=[b for b in base if ii.min<=b<=ii.max]
        a=np.array([rnd.choice(base) for _ in range(n)],dtype=ind)
    layout=rnd.choice(["c","strided","readonly"]); pres=rnd.random()<0.5
    if layout=="strided": big=np.zeros(2*n,dtype=ind); big[::2]=a; arr=big[::2]
    elif layout=="readonly": arr=np.frombuffer(a.tobytes(),dtype=ind)
    else: arr=a.copy()
    before=arr.tobytes()
    try: r=dt.get_chunk_dtype_transformer(ind,outd,warn=False)(arr,preserve_input=pres)
    except Exception as e:
        res[("C11","exc:"+type(e).__name__)]+=1; bad.append(("C11exc",i,o,layout,pres,str(e)[:50])); continue
    ok=(r.dtype==outd and r.shape==arr.shape and (not pres or arr.tobytes()==before)); kf=False; why=None
    for v,g in zip(a.tolist(),r.tolist()):
        e=exact(v,outd)
        if outd.kind=="u":
            if g!=e:
                ok=False; why=(i,o,v,g,e)
                if o=="uint64" and abs(v)>2**53: kf=True
                break
        else:
            if e is not None and g!=e and not (np.isnan(g)): ok=False; why=(i,o,v,g,e); break
    res[("C11","ok" if ok else ("KF-u64" if kf else "BAD"))]+=1
    if not ok and not kf: bad.append(why)
for k in sorted(res,key=str): print(k,res[k])
print(bad[:10])
