import numpy as np, random, collections, os
from neuroglancer_scripts import chunk_encoding as ce
from cseg_spec import decode, SpecError
rnd=random.Random(int(os.environ.get("SEED","0"))); res=collections.Counter(); ex={}; bits=collections.Counter()
for t in range(int(os.environ.get("N","600"))):
    dt=rnd.choice(["uint32","uint64"]); C=rnd.choice([1,1,2,3]); bs=[rnd.choice([1,2,3,4,8]) for _ in range(3)] if rnd.random()<0.7 else [8,8,8]
    shape=(C,rnd.randint(1,12),rnd.randint(1,12),rnd.randint(1,12))
    nlab=rnd.choice([1,2,3,4,5,16,17,256,257,5000]); hi=rnd.choice([nlab,2**31,2**40 if dt=="uint64" else 2**32-1,2**63 if dt=="uint64" else 2**32-1])
    rng=np.random.default_rng(t); labels=rng.integers(0,hi,size=nlab,endpoint=True,dtype=np.uint64)
    a=labels[rng.integers(0,nlab,size=shape)].astype(dt)
    enc=ce.CompressedSegmentationEncoder(dt,C,bs)
    try: buf=enc.encode(a)
    except Exception as e: res["encode-EXC:"+type(e).__name__]+=1; ex.setdefault("encode-EXC",(dt,bs,shape)); continue
    try:
        out,bb=decode(buf,shape,bs,np.dtype(dt).itemsize)
        for b in bb: bits[b]+=1
        got=np.array(out,dtype=np.uint64).astype(dt)
        if np.array_equal(got,a): res["spec-ok"]+=1
        else: res["SPEC-MISMATCH"]+=1; ex.setdefault("SPEC-MISMATCH",(dt,bs,shape))
    except SpecError as e: res["SPEC-REJECT"]+=1; ex.setdefault("SPEC-REJECT",(dt,bs,shape,str(e)))
    try:
        if np.array_equal(enc.decode(bytes(buf),(shape[3],shape[2],shape[1])),a): res["pkg-ok"]+=1
        else: res["PKG-MISMATCH"]+=1
    except Exception as e: res["pkg-EXC:"+type(e).__name__]+=1
print(dict(res),dict(bits)); print(ex)
