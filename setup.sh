#!/bin/bash
# Offline set-up: contracts library beside the repository's interpreter (git-ignored .deps).
set -e
cd "$(dirname "$0")"
if [ ! -d .deps/icontract ]; then
  /venv/bin/pip install -q --no-index --find-links /opt/veriftools/wheels --target .deps icontract jsonschema >/dev/null 2>&1 \
    || /venv/bin/pip install --no-index --find-links /opt/veriftools/wheels --target .deps icontract jsonschema
fi
/venv/bin/python - <<'PY'
import sys; sys.path.insert(0, ".deps")
import icontract, jsonschema
print("setup ok: icontract", icontract.__version__)
PY
