#!/bin/bash
exit 0
