"""Run the repository's command modules as real child processes, with the harness's
monitors attached inside the child (harness/monitors/site/sitecustomize.py)."""
import json
import os
import subprocess
import sys

SITE = os.path.join(os.path.dirname(os.path.abspath(__file__)), "monitors", "site")


def run(module, args, report=None, timeout=600):
    """-> (returncode, last stderr line(s), stdout).  `report`: path of a JSONL file that
    receives the child's monitor counters."""
    env = dict(os.environ, TQDM_DISABLE="1")
    if report:
        env["NGS_VERIF_CHILD_REPORT"] = report
        env["PYTHONPATH"] = SITE + os.pathsep + env.get("PYTHONPATH", "")
    p = subprocess.run([sys.executable, "-W", "ignore", "-m",
                        "neuroglancer_scripts.scripts." + module, *args],
                       capture_output=True, text=True, timeout=timeout, env=env)
    tail = p.stderr.strip().splitlines()[-1:] if p.returncode else []
    return p.returncode, tail, p.stdout


def read_report(path):
    """-> summed counters of all child processes that reported"""
    out = {"child_processes": 0, "child_write_chunk_events": 0, "child_read_chunk_events": 0,
           "child_contract_evaluations": {}}
    try:
        with open(path) as f:
            for line in f:
                r = json.loads(line)
                out["child_processes"] += 1
                out["child_write_chunk_events"] += r["events"]["write_chunk"]
                out["child_read_chunk_events"] += r["events"]["read_chunk"]
                for k, n in r["contracts"].items():
                    out["child_contract_evaluations"][k] = \
                        out["child_contract_evaluations"].get(k, 0) + n
    except FileNotFoundError:
        pass
    return out


def read_records(path, skip=0):
    """-> list of per-process records (in the order the processes ended), skipping the
    first `skip` ones"""
    out = []
    try:
        with open(path) as f:
            for line in f:
                out.append(json.loads(line))
    except FileNotFoundError:
        pass
    return out[skip:]
