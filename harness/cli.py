"""Run the repository's command modules as real child processes, with the harness's
monitors attached inside the child (harness/monitors/site/sitecustomize.py)."""
import json
import os
import subprocess
import sys

SITE = os.path.join(os.path.dirname(os.path.abspath(__file__)), "monitors", "site")


def run(module, args, report=None, timeout=600):
    """-> (returncode, last stderr line(s), stdout).  `report`: path of a JSONL file that
    receives the child's monitor counters."""
    env = dict(os.environ, TQDM_DISABLE="1")
    if report:
        env["NGS_VERIF_CHILD_REPORT"] = report
        env["PYTHONPATH"] = SITE + os.pathsep + env.get("PYTHONPATH", "")
    p = subprocess.run([sys.executable, "-W", "ignore", "-m",
                        "neuroglancer_scripts.scripts." + module, *args],
                       capture_output=True, text=True, timeout=timeout, env=env,
                       cwd=os.environ.get("NGS_VERIF_SCRATCH") or None)
    tail = p.stderr.strip().splitlines()[-1:] if p.returncode else []
    return p.returncode, tail, p.stdout


def read_report(path):
    """-> summed counters of all child processes that reported"""
    out = {"child_processes": 0, "child_write_chunk_events": 0, "child_read_chunk_events": 0,
           "child_contract_evaluations": {}}
    try:
        with open(path) as f:
            for line in f:
                r = json.loads(line)
                out["child_processes"] += 1
                out["child_write_chunk_events"] += r["events"]["write_chunk"]
                out["child_read_chunk_events"] += r["events"]["read_chunk"]
                for k, n in r["contracts"].items():
                    out["child_contract_evaluations"][k] = \
                        out["child_contract_evaluations"].get(k, 0) + n
    except FileNotFoundError:
        pass
    return out


def read_records(path, skip=0):
    """-> list of per-process records (in the order the processes ended), skipping the
    first `skip` ones"""
    out = []
    try:
        with open(path) as f:
            for line in f:
                out.append(json.loads(line))
    except FileNotFoundError:
        pass
    return out[skip:]


REPO_TEST_FILES = ["test_downscaling.py", "test_dyadic_pyramid.py", "test_sharded_base.py",
                   "test_sharded_file_accessor.py", "test_sharded_http_accessor.py",
                   "test_precomputed_io.py", "test_chunk_encoding.py"]


def run_repo_tests(report, files=REPO_TEST_FILES, timeout=900):
    """The repository's own unit tests as one more workload for the runtime contracts: the
    tests of the CURRENT tree run in a child process with the contracts attached.
    -> (returncode, summary line, lines mentioning a broken contract)"""
    repo = os.environ.get("NGS_VERIF_REPO", "/repo")
    env = dict(os.environ, TQDM_DISABLE="1", NGS_VERIF_CHILD_REPORT=report)
    env["PYTHONPATH"] = SITE + os.pathsep + env.get("PYTHONPATH", "")
    paths = [os.path.join(repo, "unit_tests", f) for f in files]
    paths = [p for p in paths if os.path.isfile(p)]
    if not paths:
        return None, "no unit tests found", []
    p = subprocess.run([sys.executable, "-W", "ignore", "-m", "pytest", "-q", "-p",
                        "no:cacheprovider", "--timeout=600", "-x", "--no-header", *paths],
                       capture_output=True, text=True, timeout=timeout, env=env, cwd=repo)
    out = p.stdout.splitlines()
    broken = [line for line in out if "ContractBroken" in line]
    return p.returncode, (out[-1] if out else ""), broken[:5]
