"""Loopback (127.0.0.1) static file server that serves a dataset the way docs/serving-data.rst
prescribes (nginx configuration reproduced there): flat->deep URL rewrite for chunk names,
gzip_static (a file X.gz is served for X with Content-Encoding: gzip), HEAD, Range/206 for
shards (never with Content-Encoding) - plus scripted misbehaviour for fault sequences.

Every request is logged (method, path, Range header, status); the log is evidence and lets
the oracle assert e.g. that a sharded fetch really issued Range requests.
"""
import http.server
import os
import re
import urllib.parse
import socket
import threading

CHUNK_RE = re.compile(r"^(.*)/([0-9]+-[0-9]+)_([0-9]+-[0-9]+)_([0-9]+-[0-9]+)$")


class _Handler(http.server.BaseHTTPRequestHandler):
    protocol_version = "HTTP/1.1"
    disable_nagle_algorithm = True   # header and body are written separately

    def log_message(self, *a):
        pass

    def _resolve(self):
        # percent-escapes are decoded once, as every web server does; the first path segment
        # may be an alias of a directory (dataset names with spaces / non-ASCII letters)
        path = urllib.parse.unquote(self.path.split("?")[0]).lstrip("/")
        first, sep, rest = path.partition("/")
        if first in getattr(self.server, "aliases", {}):
            path = self.server.aliases[first] + sep + rest
        cands = [path]
        m = CHUNK_RE.match(path)
        if m:
            cands.append("%s/%s/%s/%s" % m.groups())
        root = self.server.root
        for c in cands:
            p = os.path.normpath(os.path.join(root, c))
            if not p.startswith(root):
                continue
            if os.path.isfile(p + ".gz"):
                return p + ".gz", True
            if os.path.isfile(p):
                return p, False
        return None, False

    def _send(self, code, body=b"", headers=()):
        self.send_response(code)
        for k, v in headers:
            self.send_header(k, v)
        self.send_header("Content-Length", str(len(body)))
        self.end_headers()
        if self.command != "HEAD":
            self.wfile.write(body)
        self.server.log.append((self.command, self.path, self.headers.get("Range"), code))

    def do_HEAD(self):
        self.do_GET()

    def do_GET(self):
        srv = self.server
        fault = None
        f = srv.fault
        if f and f["path_contains"] in self.path and self.command in f.get(
                "methods", ("GET",)):
            if f.get("range_only") and not self.headers.get("Range"):
                pass
            elif f["skip"] > 0:
                f["skip"] -= 1
            elif f.get("once") and f.get("hits", 0) > 0:
                pass
            else:
                fault = f["mode"]
        if fault is not None:
            if fault in ("short", "long", "ignore-range") and not self.headers.get("Range"):
                fault = None      # these behaviours only exist for Range replies
            elif fault == "drop" and self.command != "GET":
                fault = None
            else:
                f["hits"] = f.get("hits", 0) + 1
        if fault == "reset":
            # the connection is closed without any reply (a restarting server, an idle
            # keep-alive connection cut by a proxy)
            self.server.log.append((self.command, self.path, self.headers.get("Range"),
                                    "reset"))
            self.close_connection = True
            try:
                self.connection.shutdown(socket.SHUT_RDWR)
            except OSError:
                pass
            return None
        if fault in ("500", "503", "502"):
            return self._send(int(fault), b"<html>server error</html>")
        if fault == "404":
            return self._send(404, b"<html>not found</html>")
        p, gz = self._resolve()
        if not p:
            return self._send(404, b"<html>not found</html>")
        with open(p, "rb") as fh:
            data = fh.read()
        hdr = [("Content-Encoding", "gzip")] if gz else []
        rng = self.headers.get("Range")
        if rng and not gz:
            m = re.match(r"bytes=(\d+)-(\d+)$", rng)
            if m:
                a, b = int(m[1]), int(m[2])
                if fault == "ignore-range":
                    return self._send(200, data)
                if a >= len(data):
                    return self._send(416, b"", [("Content-Range", f"bytes */{len(data)}")])
                part = data[a:b + 1]
                if len(part) >= 256 * 1024:
                    # the first of a burst of large range requests is the slowest to be
                    # answered (replies to concurrent requests arrive out of order, as
                    # they do on a real network); a lone request just takes a little longer
                    import time
                    now = time.monotonic()
                    leader = now - getattr(srv, "last_big_range", 0.0) > 0.1
                    srv.last_big_range = now
                    if leader:
                        srv.big_range_leaders = getattr(srv, "big_range_leaders", 0) + 1
                        time.sleep(0.15)
                if fault == "drop":
                    return self._drop(206, part, [(
                        "Content-Range", f"bytes {a}-{a + len(part) - 1}/{len(data)}")])
                if fault == "short":
                    part = part[:-1]
                if fault == "long":
                    part = part + b"x"
                return self._send(206, part, [("Content-Range",
                                               f"bytes {a}-{a + len(part) - 1}/{len(data)}")])
        if fault == "drop":
            return self._drop(200, data, hdr)
        return self._send(200, data, hdr)

    def _drop(self, code, data, headers):
        """Announce the full length, send half of the body, then close the connection."""
        self.send_response(code)
        for k, v in headers:
            self.send_header(k, v)
        self.send_header("Content-Length", str(len(data) + 10))
        self.end_headers()
        self.wfile.write(data[:len(data) // 2])
        self.wfile.flush()
        self.server.log.append((self.command, self.path, self.headers.get("Range"),
                                f"{code}-dropped"))
        self.close_connection = True
        try:
            self.connection.shutdown(socket.SHUT_RDWR)
        except OSError:
            pass
        return None


class StaticServer:
    def __init__(self, root):
        self.httpd = http.server.ThreadingHTTPServer(("127.0.0.1", 0), _Handler)
        self.httpd.daemon_threads = True
        self.httpd.root = os.path.realpath(root)
        self.httpd.log = []
        self.httpd.fault = None
        self.thread = threading.Thread(target=self.httpd.serve_forever, daemon=True)
        self.thread.start()
        self.base = f"http://127.0.0.1:{self.httpd.server_address[1]}"

    @property
    def log(self):
        return self.httpd.log

    def arm(self, mode, path_contains, skip=0, range_only=False, once=False,
            methods=("GET",)):
        self.httpd.fault = {"mode": mode, "path_contains": path_contains, "skip": skip,
                            "range_only": range_only, "once": once, "hits": 0,
                            "methods": methods}

    def disarm(self):
        hits = (self.httpd.fault or {}).get("hits", 0)
        self.httpd.fault = None
        return hits

    def close(self):
        self.httpd.shutdown()
        self.httpd.server_close()


def closed_port_url():
    s = socket.socket()
    s.bind(("127.0.0.1", 0))
    port = s.getsockname()[1]
    s.close()
    return f"http://127.0.0.1:{port}"
