"""Runner of the runtime-monitoring checks.

  python -m harness.core <Cxx> <quick|thorough>          run a check
  python -m harness.core <Cxx> --replay FILE             re-execute one recorded case
  python -m harness.core --worker <Cxx> CASES OUT        (internal) worker process

Verdicts are three-valued: 0 held on what was explored and every coverage gate met,
1 violated (VIOLATION line + replay file), 2 inconclusive (gate unmet, worker lost, harness
error).  Evidence is rewritten on every run.
"""
import hashlib
import importlib
import json
import os
import shutil
import subprocess
import sys
import tempfile
import time
import traceback

VERIF = os.path.dirname(os.path.dirname(os.path.abspath(__file__)))
REPO = os.environ.get("NGS_VERIF_REPO", "/repo")
DEPS = os.path.join(VERIF, ".deps")
if DEPS not in sys.path:
    sys.path.append(DEPS)


def _assert_tree():
    try:
        import neuroglancer_scripts
    except BaseException as exc:  # noqa: BLE001
        print(f"INCONCLUSIVE the tree under test cannot be imported: {exc!r}")
        sys.exit(2)
    want = os.path.realpath(os.path.join(REPO, "src"))
    got = os.path.realpath(neuroglancer_scripts.__file__)
    if not got.startswith(want + os.sep):
        print(f"INCONCLUSIVE wrong tree under test: {got} not below {want}")
        sys.exit(2)


def quiet():
    """The repository logs one line per chunk in several paths and draws tqdm bars."""
    import logging
    logging.disable(logging.CRITICAL)
    os.environ["TQDM_DISABLE"] = "1"
    try:
        import tqdm
        import functools
        orig = tqdm.tqdm.__init__

        @functools.wraps(orig)
        def init(self, *a, **k):
            k["disable"] = True
            orig(self, *a, **k)
        tqdm.tqdm.__init__ = init
    except Exception:
        pass


def load_check(prop):
    return importlib.import_module(f"harness.checks.{prop.lower()}")


def digest(obj):
    return hashlib.sha256(json.dumps(obj, sort_keys=True, default=str).encode()
                          ).hexdigest()[:16]


def merge_obs(dst, src):
    for k, v in src.items():
        if isinstance(v, dict):
            merge_obs(dst.setdefault(k, {}), v)
        elif isinstance(v, bool):
            dst[k] = bool(dst.get(k, False)) or v
        elif isinstance(v, (int, float)):
            dst[k] = dst.get(k, 0) + v
        elif isinstance(v, list):
            cur = dst.setdefault(k, [])
            for x in v:
                if x not in cur and len(cur) < 64:
                    cur.append(x)
        else:
            dst[k] = v


# --------------------------------------------------------------------------- worker


class CaseTimeout(BaseException):
    """Raised by the per-case alarm (BaseException: must not be swallowed by the code under
    test)."""


def _on_alarm(signum, frame):
    raise CaseTimeout()


def run_one(mod, case):
    """Run one case; harness errors are reported separately from violations.

    A check may declare CASE_TIMEOUT (seconds, orders of magnitude above the normal running
    time of a case).  A case that exceeds it is repeated alone with three times the limit;
    only if it exceeds that as well it is reported (kind "no-termination")."""
    import signal
    t0 = time.time()
    limit = getattr(mod, "CASE_TIMEOUT", None)
    res = None
    for attempt, factor in ((1, 1), (2, 2)):
        try:
            if limit:
                signal.signal(signal.SIGALRM, _on_alarm)
                signal.alarm(int(limit * factor))
            try:
                res = mod.run_case(case)
            finally:
                if limit:
                    signal.alarm(0)
            break
        except CaseTimeout:
            if attempt == 2:
                res = {"violations": [{
                    "kind": "no-termination",
                    "detail": f"the case did not finish within {limit}s and, repeated, "
                    f"within {2 * limit}s (cases of this check normally take well under "
                    "a second)"}]}
        except BaseException as exc:  # a bug of the harness, never a verdict
            if isinstance(exc, KeyboardInterrupt):
                raise
            res = {"violations": [], "harness_error": "".join(
                traceback.format_exception(type(exc), exc, exc.__traceback__))[-4000:]}
            break
    res.setdefault("violations", [])
    res["case_id"] = case.get("id")
    res["t"] = round(time.time() - t0, 3)
    return res


def worker_main(prop, cases_path, out_path):
    scratch = tempfile.mkdtemp(prefix=f"ngsv-{prop}-w-")
    os.environ["TMPDIR"] = scratch
    tempfile.tempdir = scratch
    os.environ["NGS_VERIF_SCRATCH"] = scratch
    os.chdir(scratch)      # a stray relative path in the code under test lands in scratch
    try:
        _assert_tree()
        quiet()
        mod = load_check(prop)
        with open(cases_path) as f:
            cases = json.load(f)
        # the process has used other parts of the package before (see harness/prelude.py);
        # runs before the monitors are attached, so nothing of it is counted as coverage
        from harness import prelude
        prelude_steps = prelude.run()
        reach = None
        if getattr(mod, "REACH", None):
            from harness.monitors import reach as reach_mod
            reach = reach_mod.Reach(mod.REACH)
            reach.start()
        if hasattr(mod, "worker_init"):
            mod.worker_init()
        with open(out_path, "w") as out:
            hung = 0
            for case in cases:
                res = run_one(mod, case)
                out.write(json.dumps(res, default=str) + "\n")
                out.flush()
                hung += any(v.get("kind") == "no-termination" for v in res["violations"])
                if hung >= 2:
                    break  # the verdict is already "violated"; do not wait for the rest
            tail = {"worker_done": True,
                    "obs": {"earlier_uses_of_the_package_in_the_worker":
                            {k: 1 for k in prelude_steps}}}
            if reach is not None:
                reach.stop()
                tail["obs"]["calls"] = reach.counts()
                tail["obs"]["calls_by_module"] = reach.module_counts()
                if os.environ.get("NGS_VERIF_REACH_ALL"):   # tools/reach_report.py
                    with open(os.path.join(os.environ["NGS_VERIF_REACH_ALL"],
                                           f"{prop}-{os.getpid()}.json"), "w") as rf:
                        json.dump(dict(reach._counts), rf)
            if hasattr(mod, "worker_obs"):
                merge_obs(tail["obs"], mod.worker_obs())
            out.write(json.dumps(tail) + "\n")
    finally:
        shutil.rmtree(scratch, ignore_errors=True)


# --------------------------------------------------------------------------- main


def load_known():
    path = os.path.join(VERIF, "known_findings.json")
    try:
        with open(path) as f:
            return json.load(f)["findings"]
    except FileNotFoundError:
        return []


def main(argv):
    if argv and argv[0] == "--worker":
        worker_main(argv[1], argv[2], argv[3])
        sys.stdout.flush()
        sys.stderr.flush()
        # skip atexit handlers: every ShardedFileAccessor registers close() there, and an
        # accessor abandoned by a timed-out case must not be flushed (or hang) at exit
        os._exit(0)
    if len(argv) < 2:
        print(__doc__)
        return 2
    prop = argv[0].upper()
    if argv[1] == "--replay":
        return replay(prop, argv[2])
    tier = argv[1]
    assert tier in ("quick", "thorough"), tier
    seed = int(os.environ.get("VERIF_SEED", "0"))
    _assert_tree()
    quiet()
    mod = load_check(prop)
    t0 = time.time()

    cases = mod.gen_cases(tier, seed)
    for i, c in enumerate(cases):
        c.setdefault("id", i)
    jobs = int(os.environ.get("NGS_VERIF_JOBS", "0")) or min(16, os.cpu_count() or 4)
    jobs = max(1, min(jobs, len(cases)))
    timeout = getattr(mod, "WORKER_TIMEOUT", {"quick": 900, "thorough": 7200})[tier]
    scratch = tempfile.mkdtemp(prefix=f"ngsv-{prop}-")
    os.environ["NGS_VERIF_RUN_ID"] = str(os.getpid())    # names scratch on other file systems
    results, lost, herrs = [], [], []
    obs = {}
    try:
        procs = []
        for w in range(jobs):
            cp = os.path.join(scratch, f"cases{w}.json")
            op = os.path.join(scratch, f"out{w}.jsonl")
            with open(cp, "w") as f:
                json.dump(cases[w::jobs], f)
            log = open(os.path.join(scratch, f"log{w}.txt"), "w")
            p = subprocess.Popen(
                [sys.executable, "-W", "ignore", "-m", "harness.core", "--worker", prop,
                 cp, op], stdout=log, stderr=subprocess.STDOUT, cwd=VERIF)
            procs.append((w, p, op, log))
        deadline = time.time() + timeout
        for w, p, op, log in procs:
            try:
                p.wait(timeout=max(1, deadline - time.time()))
            except subprocess.TimeoutExpired:
                p.kill()
                p.wait()
                lost.append(f"worker {w} exceeded the {timeout}s watchdog")
            log.close()
            done = False
            n_expected = len(cases[w::jobs])
            n_got = 0
            if os.path.exists(op):
                with open(op) as f:
                    for line in f:
                        try:
                            r = json.loads(line)
                        except ValueError:
                            continue
                        if r.get("worker_done"):
                            done = True
                            merge_obs(obs, r.get("obs", {}))
                        else:
                            n_got += 1
                            results.append(r)
            if not done and not any(s.startswith(f"worker {w} ") for s in lost):
                with open(os.path.join(scratch, f"log{w}.txt")) as f:
                    tail = f.read()[-1500:]
                lost.append(f"worker {w} died after {n_got}/{n_expected} cases "
                            f"(exit {p.returncode}): {tail}")
    finally:
        shutil.rmtree(scratch, ignore_errors=True)
        import glob
        for left in glob.glob(f"/dev/shm/ngsv{os.getpid()}-*"):
            shutil.rmtree(left, ignore_errors=True)

    by_id = {c["id"]: c for c in cases}
    known = [k for k in load_known() if k["property"] == prop]
    open_known = {k["id"]: k for k in known if k["status"] == "open"}
    kf_hits = {k: 0 for k in open_known}
    violations = []
    sigs = set()
    evaluations = 0
    disjoint = 0
    samples = []
    for r in results:
        if r.get("harness_error"):
            herrs.append((r["case_id"], r["harness_error"]))
        evaluations += int(r.get("evals", 1))
        for s in r.get("sigs", []):
            sigs.add(s)
        disjoint += int(r.get("distinct_disjoint", 0))
        merge_obs(obs, r.get("obs", {}))
        if r.get("sample") is not None:
            samples.append(r["sample"])
        for v in r["violations"]:
            case = by_id.get(r["case_id"])
            kid = v.get("known") or (mod.classify(case, v) if hasattr(mod, "classify")
                                     else None)
            if kid is not None and kid in open_known:
                kf_hits[kid] += 1
                continue
            violations.append((case, v))
    if len(samples) > 6:   # a spread over the whole run, not just the first cases
        step = len(samples) / 6.0
        samples = [samples[int(i * step)] for i in range(6)]
    if not samples:
        samples = [c for c in cases[:3]]
    gates = mod.gates(obs, tier) if hasattr(mod, "gates") else {}
    wall = time.time() - t0

    replay_paths = []
    outdir = os.environ.get("NGS_VERIF_OUT", VERIF)
    os.makedirs(os.path.join(outdir, "replays"), exist_ok=True)
    seen_kinds = {}
    for case, v in violations:
        kind = v.get("kind", "violation")
        seen_kinds[kind] = seen_kinds.get(kind, 0) + 1
        if seen_kinds[kind] > 3:
            continue  # keep at most three replay files per kind of violation
        path = os.path.join(outdir, "replays",
                            f"{prop}-{digest([case, v.get('kind'), v.get('detail')])}.json")
        with open(path, "w") as f:
            json.dump({"property": prop, "seed": seed, "tier": tier, "case": case,
                       "violation": v}, f, indent=1, default=str)
        replay_paths.append((path, v))

    coverage = {
        "evaluations": evaluations,
        "distinct_nontrivial": len(sigs) + disjoint,
        "rule": mod.RULE,
        "samples": samples,
        "exhaustive": bool(getattr(mod, "EXHAUSTIVE", {}).get(tier, False)),
        "observed": obs,
        "gates": gates,
        "cases_generated": len(cases),
        "workers": jobs,
        "known_findings_observed": kf_hits,
    }
    if violations:
        coverage["violation_kinds"] = seen_kinds
    verdict = "violated" if violations else (
        "inconclusive" if (lost or herrs or not all(gates.values())) else "held")
    coverage["verdict"] = verdict
    if lost or herrs:
        coverage["harness_problems"] = lost + [f"case {i}: {e[-600:]}" for i, e in herrs[:5]]
    evidence = {
        "property_id": prop, "tier": tier, "seed": seed, "level": mod.LEVEL,
        "coverage": coverage, "assumptions": list(getattr(mod, "ASSUMPTIONS", [])),
        "wall_s": round(wall, 2), "violations": len(violations),
    }
    os.makedirs(os.path.join(outdir, "evidence"), exist_ok=True)
    with open(os.path.join(outdir, "evidence", f"{prop}.json"), "w") as f:
        json.dump(evidence, f, indent=1, default=str)
        f.write("\n")

    for k in open_known.values():
        print(f"KNOWN-FINDING: property={prop} {k['id']}: {k['what']} "
              f"[observed {kf_hits[k['id']]} time(s) in this run]")
    print(f"{prop} {tier} seed={seed}: {evaluations} evaluations, "
          f"{coverage['distinct_nontrivial']} distinct non-trivial, {len(cases)} cases, "
          f"{wall:.1f}s, gates={gates}")
    brief = {k: v for k, v in obs.items() if not isinstance(v, (dict, list))}
    print(f"{prop} observed: {json.dumps(brief, default=str)[:1500]}")
    for path, v in replay_paths:
        print(f"  {v.get('kind')}: {str(v.get('detail'))[:300]}")
        print(f"VIOLATION property={prop} replay={path}")
    if violations:
        print(f"{prop}: {len(violations)} violating observation(s): {seen_kinds}")
        return 1
    if lost or herrs:
        for s in lost:
            print(f"INCONCLUSIVE property={prop} {s}")
        for i, e in herrs[:3]:
            print(f"INCONCLUSIVE property={prop} harness error in case {i}:\n{e}")
        return 2
    unmet = [g for g, ok in gates.items() if not ok]
    if unmet:
        print(f"INCONCLUSIVE property={prop} coverage gate(s) not met: {unmet}")
        return 2
    print(f"{prop}: held on everything explored")
    return 0


def replay(prop, path):
    _assert_tree()
    quiet()
    mod = load_check(prop)
    with open(path) as f:
        rec = json.load(f)
    scratch = tempfile.mkdtemp(prefix=f"ngsv-{prop}-r-")
    os.environ["TMPDIR"] = scratch
    tempfile.tempdir = scratch
    try:
        from harness import prelude
        prelude.run()
        if hasattr(mod, "worker_init"):
            mod.worker_init()
        res = run_one(mod, rec["case"])
    finally:
        shutil.rmtree(scratch, ignore_errors=True)
    print(json.dumps(res, indent=1, default=str)[:6000])
    if res.get("harness_error"):
        return 2
    if res["violations"]:
        print(f"VIOLATION property={prop} replay={path}")
        return 1
    print("replay: no violation")
    return 0


if __name__ == "__main__":
    sys.exit(main(sys.argv[1:]))
