"""Driver for the system-call cross-check of the I/O interposition layer (C18):
  python -m harness.io_driver <workdir> <events.json>
performs representative storage operations of the repository inside <workdir> under
iohook (record mode) and dumps the intercepted (op, path) events.  It is run under strace by
harness/checks/c18.py, which compares the files touched at system-call level with the files
the interposition layer saw."""
import json
import os
import sys
import tempfile


def main(workdir, out):
    import numpy as np
    from harness.core import quiet
    from harness.monitors import iohook
    quiet()
    from neuroglancer_scripts import accessor as accessor_mod
    from neuroglancer_scripts import file_accessor, precomputed_io, sharded_file_accessor
    tmp = os.path.join(workdir, "tmp")
    os.makedirs(tmp)
    tempfile.tempdir = tmp
    hook = iohook.Hook([workdir])
    with hook:
        for flat, gz in ((False, True), (True, False)):
            d = os.path.join(workdir, f"file-{int(flat)}{int(gz)}")
            acc = file_accessor.FileAccessor(d, flat=flat, gzip=gz)
            info = {"type": "image", "data_type": "uint16", "num_channels": 1, "scales": [
                {"key": "k", "size": [10, 6, 4], "chunk_sizes": [[4, 4, 4]],
                 "resolution": [1, 1, 1], "voxel_offset": [0, 0, 0], "encoding": "raw"}]}
            pio = precomputed_io.get_IO_for_new_dataset(info, acc)
            for x in (0, 4, 8):
                pio.write_chunk(np.full((1, 4, 4, min(4, 10 - x)), x, "uint16"), "k",
                                (x, min(x + 4, 10), 0, 4, 0, 4))
            acc.store_file("mesh/frag:0", b"x" * 100)
            acc.fetch_file("mesh/frag:0")
            acc.file_exists("info")
            pio.read_chunk("k", (4, 8, 0, 4, 0, 4))
            fresh = precomputed_io.get_IO_for_existing_dataset(
                accessor_mod.get_accessor_for_url(d))
            fresh.read_chunk("k", (0, 4, 0, 4, 0, 4))
        for strategy in ("on disk", "in memory"):
            d = os.path.join(workdir, "sharded-" + strategy[:2])
            info = {"type": "image", "data_type": "uint8", "num_channels": 1, "scales": [
                {"key": "k", "size": [8, 8, 4], "chunk_sizes": [[4, 4, 4]],
                 "resolution": [1, 1, 1], "voxel_offset": [0, 0, 0], "encoding": "raw",
                 "sharding": {"@type": "neuroglancer_uint64_sharded_v1", "hash": "identity",
                              "minishard_bits": 1, "shard_bits": 0, "preshift_bits": 0,
                              "minishard_index_encoding": "gzip", "data_encoding": "gzip"}}]}
            acc = sharded_file_accessor.ShardedFileAccessor(d, strategy=strategy)
            pio = precomputed_io.get_IO_for_new_dataset(info, acc)
            for x, y in ((4, 4), (0, 4), (4, 0), (0, 0)):       # descending identifiers
                pio.write_chunk(np.full((1, 4, 4, 4), x + y, "uint8"), "k",
                                (x, x + 4, y, y + 4, 0, 4))
            acc.store_file("mesh/frag", b"y" * 50)
            acc.close()
            fresh = precomputed_io.get_IO_for_existing_dataset(
                accessor_mod.get_accessor_for_url(d))
            fresh.read_chunk("k", (4, 8, 4, 8, 0, 4))
    with open(out, "w") as f:
        json.dump([[op, path] for _k, op, path in hook.events], f)


if __name__ == "__main__":
    main(sys.argv[1], sys.argv[2])
    sys.stdout.flush()
    os._exit(0)
