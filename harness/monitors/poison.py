""""MSan for np.empty": a proxy for the `np` name seen by one repository module whose
`empty` returns buffers pre-filled with a poison byte pattern and counts allocations.  Two
runs with different patterns expose voxels that were never written."""
import numpy as _np


class PoisonNumpy:
    def __init__(self, pattern):
        self.pattern = pattern
        self.allocations = 0

    def __getattr__(self, name):
        return getattr(_np, name)

    def empty(self, shape, dtype=float, *a, **kw):
        self.allocations += 1
        arr = _np.empty(shape, dtype, *a, **kw)
        if arr.size:
            arr.view(_np.uint8).reshape(-1)[...] = self.pattern
        return arr


class poisoned:
    """with poisoned(module, 0x55) as proxy: ..."""

    def __init__(self, module, pattern):
        self.module = module
        self.proxy = PoisonNumpy(pattern)

    def __enter__(self):
        self.saved = self.module.np
        self.module.np = self.proxy
        return self.proxy

    def __exit__(self, *a):
        self.module.np = self.saved
        return False
