"""Runtime contracts (icontract) attached from the harness to the repository's real
functions, so that they are evaluated on every *internal* call made during pipeline
workloads.  COUNTS records how often each condition was evaluated (zero = inconclusive)."""
import icontract

from harness.refs import morton_spec

COUNTS = {}
_attached = set()


class ContractBroken(Exception):
    """A postcondition attached by the harness was violated by the real code."""


def _count(name):
    COUNTS[name] = COUNTS.get(name, 0) + 1


def morton_matches_spec(self, grid_coords, result):
    _count("compressed_morton_code")
    return int(result) == morton_spec.compressed_morton(list(self.grid_sizes),
                                                        list(grid_coords))


def shard_key_matches_spec(self, cmc, result):
    _count("get_shard_key")
    sp = self.shard_spec
    return int(result) == morton_spec.route(int(cmc), int(sp.preshift_bits),
                                            int(sp.minishard_bits), int(sp.shard_bits))[0]


def minishard_key_matches_spec(self, cmc, result):
    _count("get_minishard_key")
    sp = self.shard_spec
    return int(result) == morton_spec.route(int(cmc), int(sp.preshift_bits),
                                            int(sp.minishard_bits), int(sp.shard_bits))[1]


def attach_routing_contracts():
    if "routing" in _attached:
        return
    _attached.add("routing")
    from neuroglancer_scripts import sharded_base as sb
    sb.ShardVolumeSpec.compressed_morton_code = icontract.ensure(
        morton_matches_spec, error=lambda self, grid_coords, result: ContractBroken(
            f"compressed_morton_code({grid_coords}) on grid {self.grid_sizes} returned "
            f"{int(result)}, specification says "
            f"{morton_spec.compressed_morton(list(self.grid_sizes), list(grid_coords))}")
    )(sb.ShardVolumeSpec.compressed_morton_code)
    sb.CMCReadWrite.get_shard_key = icontract.ensure(
        shard_key_matches_spec, error=lambda self, cmc, result: ContractBroken(
            f"get_shard_key({int(cmc)}) returned {int(result)}")
    )(sb.CMCReadWrite.get_shard_key)
    sb.CMCReadWrite.get_minishard_key = icontract.ensure(
        minishard_key_matches_spec, error=lambda self, cmc, result: ContractBroken(
            f"get_minishard_key({int(cmc)}) returned {int(result)}")
    )(sb.CMCReadWrite.get_minishard_key)


# --------------------------------------------------------------------------- downscalers


def downscale_post(self, chunk, downscaling_factors, result):
    """Cheap vectorised form of the C07 postcondition, evaluated on every internal call of
    the pyramid pipelines: shape ceil(size/factor), dtype unchanged, values inside the
    [min, max] of the input (extended by the outside value when one is configured)."""
    import numpy as np
    _count("downscale")
    dx, dy, dz = downscaling_factors
    want = (chunk.shape[0], -(-chunk.shape[1] // dz), -(-chunk.shape[2] // dy),
            -(-chunk.shape[3] // dx))
    if tuple(result.shape) != want or result.dtype != chunk.dtype:
        return False
    if chunk.size == 0:
        return True
    if chunk.dtype.kind == "f" and np.isnan(chunk).any():
        # not-a-number voxels propagate into their blocks; the range condition applies to
        # the numbers that remain
        if np.isnan(chunk).all() or np.isnan(result).all():
            return True
        lo, hi = np.nanmin(chunk), np.nanmax(chunk)
        pad = _OUTSIDE.get(id(self))
        if pad is not None:
            lo, hi = min(lo, pad), max(hi, pad)
        return bool(np.nanmin(result) >= np.floor(lo) and np.nanmax(result) <= np.ceil(hi))
    lo, hi = chunk.min(), chunk.max()
    pad = _OUTSIDE.get(id(self))
    if pad is not None:
        if np.issubdtype(chunk.dtype, np.integer):
            info = np.iinfo(chunk.dtype)
            pad = min(max(pad, info.min), info.max)
        lo, hi = min(lo, pad), max(hi, pad)
    if chunk.dtype == np.uint64 and int(chunk.max()) > 2 ** 47:
        return True   # recorded finding C07-uint64-average-through-float64
    return bool(result.min() >= np.floor(lo) and result.max() <= np.ceil(hi))


# outside value each AveragingDownscaler was CONSTRUCTED with (public constructor argument),
# recorded by the harness itself: the contract must not depend on private attributes of the
# implementation
_OUTSIDE = {}


def attach_downscale_contracts():
    if "downscale" in _attached:
        return
    _attached.add("downscale")
    from neuroglancer_scripts import downscaling as ds
    orig_init = ds.AveragingDownscaler.__init__

    def __init__(self, *a, **k):
        orig_init(self, *a, **k)
        try:
            _OUTSIDE[id(self)] = a[0] if a else k.get("outside_value")
        except Exception:
            pass
    ds.AveragingDownscaler.__init__ = __init__
    for cls in (ds.StridingDownscaler, ds.AveragingDownscaler, ds.MajorityDownscaler):
        cls.downscale = icontract.ensure(
            downscale_post, error=lambda self, chunk, downscaling_factors, result:
            ContractBroken(f"{type(self).__name__}.downscale(shape {chunk.shape} "
                           f"{chunk.dtype}, factors {downscaling_factors}) returned shape "
                           f"{getattr(result, 'shape', None)} dtype "
                           f"{getattr(result, 'dtype', None)} or values outside the input "
                           "range")
        )(cls.downscale)
