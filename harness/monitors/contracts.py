"""Runtime contracts (icontract) attached from the harness to the repository's real
functions, so that they are evaluated on every *internal* call made during pipeline
workloads.  COUNTS records how often each condition was evaluated (zero = inconclusive)."""
import icontract

from harness.refs import morton_spec

COUNTS = {}
_attached = set()


class ContractBroken(Exception):
    """A postcondition attached by the harness was violated by the real code."""


def _count(name):
    COUNTS[name] = COUNTS.get(name, 0) + 1


def morton_matches_spec(self, grid_coords, result):
    _count("compressed_morton_code")
    return int(result) == morton_spec.compressed_morton(list(self.grid_sizes),
                                                        list(grid_coords))


def shard_key_matches_spec(self, cmc, result):
    _count("get_shard_key")
    sp = self.shard_spec
    return int(result) == morton_spec.route(int(cmc), int(sp.preshift_bits),
                                            int(sp.minishard_bits), int(sp.shard_bits))[0]


def minishard_key_matches_spec(self, cmc, result):
    _count("get_minishard_key")
    sp = self.shard_spec
    return int(result) == morton_spec.route(int(cmc), int(sp.preshift_bits),
                                            int(sp.minishard_bits), int(sp.shard_bits))[1]


def attach_routing_contracts():
    if "routing" in _attached:
        return
    _attached.add("routing")
    from neuroglancer_scripts import sharded_base as sb
    sb.ShardVolumeSpec.compressed_morton_code = icontract.ensure(
        morton_matches_spec, error=lambda self, grid_coords, result: ContractBroken(
            f"compressed_morton_code({grid_coords}) on grid {self.grid_sizes} returned "
            f"{int(result)}, specification says "
            f"{morton_spec.compressed_morton(list(self.grid_sizes), list(grid_coords))}")
    )(sb.ShardVolumeSpec.compressed_morton_code)
    sb.CMCReadWrite.get_shard_key = icontract.ensure(
        shard_key_matches_spec, error=lambda self, cmc, result: ContractBroken(
            f"get_shard_key({int(cmc)}) returned {int(result)}")
    )(sb.CMCReadWrite.get_shard_key)
    sb.CMCReadWrite.get_minishard_key = icontract.ensure(
        minishard_key_matches_spec, error=lambda self, cmc, result: ContractBroken(
            f"get_minishard_key({int(cmc)}) returned {int(result)}")
    )(sb.CMCReadWrite.get_minishard_key)
