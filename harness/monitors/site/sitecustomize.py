"""Activated inside CLI child processes of the checks (PYTHONPATH-injected) when
NGS_VERIF_MONITORS=1 and NGS_VERIF_CHILD_REPORT names a report file: attaches the harness's
runtime contracts (identifier/routing functions, Downscaler.downscale) and a write tracer to
the real functions of the repository *inside the real command process*, and appends one JSON
line with the evaluation counters at exit.  Without the guard variable this file does
nothing; /venv has no sitecustomize of its own."""
import os
import sys

if os.environ.get("NGS_VERIF_MONITORS") == "1" and os.environ.get("NGS_VERIF_CHILD_REPORT"):
    try:
        _verif = os.path.dirname(os.path.dirname(os.path.dirname(os.path.dirname(
            os.path.abspath(__file__)))))
        if _verif not in sys.path:
            sys.path.append(_verif)
        sys.path.append(os.path.join(_verif, ".deps"))
        import atexit
        import json

        from harness.monitors import contracts
        contracts.attach_routing_contracts()
        contracts.attach_downscale_contracts()
        from neuroglancer_scripts import precomputed_io
        _events = {"write_chunk": 0, "read_chunk": 0}
        _written = []
        _ow, _or = precomputed_io.PrecomputedIO.write_chunk, \
            precomputed_io.PrecomputedIO.read_chunk

        def _w(self, chunk, scale_key, chunk_coords):
            res = _ow(self, chunk, scale_key, chunk_coords)
            _events["write_chunk"] += 1
            return res

        def _r(self, scale_key, chunk_coords):
            _events["read_chunk"] += 1
            return _or(self, scale_key, chunk_coords)
        precomputed_io.PrecomputedIO.write_chunk = _w
        precomputed_io.PrecomputedIO.read_chunk = _r

        # chunks that really reach the storage layer (accessor boundary)
        from neuroglancer_scripts import file_accessor, sharded_file_accessor

        def _wrap_store(cls):
            orig = cls.store_chunk

            def store_chunk(self, buf, key, chunk_coords, *a, **k):
                res = orig(self, buf, key, chunk_coords, *a, **k)
                try:    # the monitor must never break the call it observes
                    if len(_written) < 200000:
                        _written.append([key, [int(c) for c in chunk_coords]])
                except Exception:
                    pass
                return res
            cls.store_chunk = store_chunk
        _wrap_store(file_accessor.FileAccessor)
        _wrap_store(sharded_file_accessor.ShardedFileAccessor)

        def _report():
            try:
                with open(os.environ["NGS_VERIF_CHILD_REPORT"], "a") as f:
                    f.write(json.dumps({"argv": sys.argv[:1], "events": _events,
                                        "written": _written,
                                        "contracts": dict(contracts.COUNTS)}) + "\n")
            except Exception:
                pass
        atexit.register(_report)
    except Exception as _exc:   # never break the command under test because of the monitor
        sys.stderr.write(f"ngs-verif child monitor not attached: {_exc!r}\n")

if os.environ.get("NGS_VERIF_MONITORS") == "1" and os.environ.get("NGS_VERIF_REACH_ALL"):
    # function-reach audit of the command processes (tools/reach_report.py only)
    try:
        _verif = os.path.dirname(os.path.dirname(os.path.dirname(os.path.dirname(
            os.path.abspath(__file__)))))
        if _verif not in sys.path:
            sys.path.append(_verif)
        import atexit as _atexit
        import json as _json

        from harness.monitors import reach as _reach_mod
        _reach = _reach_mod.Reach()
        _reach.start()

        def _dump_reach():
            try:
                with open(os.path.join(os.environ["NGS_VERIF_REACH_ALL"],
                                       f"child-{os.getpid()}.json"), "w") as f:
                    _json.dump(dict(_reach._counts), f)
            except Exception:
                pass
        _atexit.register(_dump_reach)
    except Exception as _exc:
        sys.stderr.write(f"ngs-verif reach audit not attached: {_exc!r}\n")
