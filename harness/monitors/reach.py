"""Reachability monitor: sys.monitoring PY_START counters for functions of the repository.

Evidence that the anchored functions named by a check were really executed by its
workload (a check whose deciding function was never entered must not report "held").
Non-repository code objects are switched off with DISABLE, so the cost stays ~5 %.
"""
import os
import sys

TOOL = 3  # sys.monitoring tool id (0-5 are free for tools; 3 is unused by debuggers)


class Reach:
    def __init__(self, wanted=None):
        repo = os.environ.get("NGS_VERIF_REPO", "/repo")
        self.root = os.path.realpath(os.path.join(repo, "src", "neuroglancer_scripts"))
        self.wanted = set(wanted or [])
        self._counts = {}

    def _on_start(self, code, offset):
        fn = code.co_filename
        if not fn.startswith(self.root):
            return sys.monitoring.DISABLE
        name = os.path.basename(fn)[:-3] + "." + code.co_qualname
        self._counts[name] = self._counts.get(name, 0) + 1
        return None

    def start(self):
        m = sys.monitoring
        try:
            m.use_tool_id(TOOL, "ngs-verif-reach")
        except ValueError:
            pass
        m.register_callback(TOOL, m.events.PY_START, self._on_start)
        m.set_events(TOOL, m.events.PY_START)

    def stop(self):
        m = sys.monitoring
        m.set_events(TOOL, 0)
        m.register_callback(TOOL, m.events.PY_START, None)
        try:
            m.free_tool_id(TOOL)
        except ValueError:
            pass

    def module_counts(self):
        """Calls per module of the package (robust against renamed private helpers)."""
        out = {}
        for k, v in self._counts.items():
            m = k.split(".", 1)[0]
            out[m] = out.get(m, 0) + v
        return out

    def counts(self):
        if not self.wanted:
            return dict(self._counts)
        out = {}
        for w in self.wanted:
            out[w] = sum(v for k, v in self._counts.items()
                         if k == w or k.endswith("." + w) or k.startswith(w + ".<locals>"))
        return out
