"""Boundary tracer: wraps the public methods of an Accessor / PrecomputedIO *instance* (the
class and isinstance() relations stay untouched) and appends one event per call."""
import functools
import hashlib

ACCESSOR_METHODS = ("store_chunk", "fetch_chunk", "store_file", "fetch_file", "file_exists")
IO_METHODS = ("write_chunk", "read_chunk")


def _dig(b):
    if b is None:
        return None
    return hashlib.sha256(bytes(b)).hexdigest()[:16]


class Trace:
    def __init__(self, keep_bytes=True):
        self.events = []
        self.keep_bytes = keep_bytes

    def count(self, op):
        return sum(1 for e in self.events if e["op"] == op)


def trace_accessor(acc, trace):
    for name in ACCESSOR_METHODS:
        orig = getattr(acc, name, None)
        if orig is None:
            continue

        def make(name, orig):
            @functools.wraps(orig)
            def wrapper(*a, **k):
                ev = {"op": name, "args": None, "exc": None}
                if name == "store_chunk":
                    ev["key"], ev["coords"] = a[1], tuple(int(c) for c in a[2])
                    ev["bytes"] = bytes(a[0]) if trace.keep_bytes else None
                    ev["digest"] = _dig(a[0])
                    ev["mime"] = k.get("mime_type")
                elif name == "fetch_chunk":
                    ev["key"], ev["coords"] = a[0], tuple(int(c) for c in a[1])
                else:
                    ev["path"] = str(a[0])
                    if name == "store_file":
                        ev["digest"] = _dig(a[1])
                trace.events.append(ev)
                try:
                    res = orig(*a, **k)
                except BaseException as exc:
                    ev["exc"] = type(exc).__name__
                    raise
                if name in ("fetch_chunk", "fetch_file"):
                    ev["digest"] = _dig(res)
                elif name == "file_exists":
                    ev["result"] = bool(res)
                return res
            return wrapper
        setattr(acc, name, make(name, orig))
    return acc


def trace_io(pio, trace):
    for name in IO_METHODS:
        orig = getattr(pio, name)

        def make(name, orig):
            @functools.wraps(orig)
            def wrapper(*a, **k):
                if name == "write_chunk":
                    ev = {"op": name, "key": a[1], "coords": tuple(int(c) for c in a[2]),
                          "shape": tuple(a[0].shape), "dtype": str(a[0].dtype), "exc": None}
                else:
                    ev = {"op": name, "key": a[0], "coords": tuple(int(c) for c in a[1]),
                          "exc": None}
                trace.events.append(ev)
                try:
                    return orig(*a, **k)
                except BaseException as exc:
                    ev["exc"] = type(exc).__name__
                    raise
            return wrapper
        setattr(pio, name, make(name, orig))
    return pio
