"""Python-level I/O interposition (the repository is pure Python: every file-system effect
goes through these entry points).

Patched while a Hook is active:  builtins.open / io.open, os.open, os.stat, os.lstat,
os.mkdir, os.unlink / os.remove, os.rename / os.replace, os.rmdir, os.listdir, os.scandir,
and on file objects opened below a watched root: read, write, flush, close.

Every intercepted call on a watched path gets a sequence number k (1-based).  Modes:
  record            only count / log (op, path) events
  fault(k, errno)   the k-th call raises OSError(errno) instead of running
  crash(k, when)    the process ends with os._exit(CRASH_STATUS) before or after the k-th
                    call: no finally blocks, no __exit__, no atexit, buffered data lost
Calls on paths outside the watched roots pass through (optionally logged: `outside`).
"""
import builtins
import errno as errno_mod
import io
import os

CRASH_STATUS = 77


class _FileProxy:
    """Delegating wrapper around a file object; read/write/flush/close are hook points."""

    def __init__(self, hook, f, path):
        object.__setattr__(self, "_h", hook)
        object.__setattr__(self, "_f", f)
        object.__setattr__(self, "_p", path)

    def __getattr__(self, name):
        return getattr(self._f, name)

    def __setattr__(self, name, value):
        setattr(self._f, name, value)

    def __enter__(self):
        self._f.__enter__()
        return self

    def __exit__(self, *a):
        # closing is an I/O call of its own
        self.close()
        return False

    def __iter__(self):
        return iter(self._f)

    def read(self, *a):
        return self._h._call("read", self._p, lambda: self._f.read(*a))

    def readinto(self, b):
        return self._h._call("read", self._p, lambda: self._f.readinto(b))

    def write(self, b):
        return self._h._call("write", self._p, lambda: self._f.write(b))

    def flush(self):
        if self._f.closed:
            return self._f.flush()
        return self._h._call("flush", self._p, lambda: self._f.flush())

    def close(self):
        if self._f.closed:
            return None
        return self._h._call("close", self._p, lambda: self._f.close())


class Hook:
    def __init__(self, roots, mode="record", k=None, err=None, when="before",
                 ops=None):
        self.roots = [os.path.realpath(r) for r in roots]
        self.mode = mode
        self.k = k
        self.err = err
        self.when = when
        self.n = 0
        self.events = []        # (k, op, path) on watched paths
        self.outside = []       # (op, path) on other paths, for confinement monitoring
        self.log_outside = False
        self.fired = False
        self._saved = {}
        self.ops = ops          # restrict numbering to these op names (None = all)
        self._busy = False      # re-entrancy guard (os.path.realpath calls os.lstat)

    # -- helpers
    def _watched(self, path):
        try:
            p = os.fspath(path)
        except TypeError:
            return None
        if isinstance(p, bytes):
            p = p.decode("utf-8", "replace")
        ap = os.path.normpath(os.path.join(os.getcwd(), p))
        for r in self.roots:
            if ap == r or ap.startswith(r + os.sep):
                return ap
        # resolve symlinks of the parent (tmp dirs)
        self._busy = True
        try:
            rp = os.path.realpath(os.path.dirname(ap))
        finally:
            self._busy = False
        for r in self.roots:
            if rp == r or rp.startswith(r + os.sep):
                return ap
        if self.log_outside:
            self.outside.append(ap)
        return None

    def _call(self, op, path, thunk):
        if self.ops is not None and op not in self.ops:
            return thunk()
        self.n += 1
        k = self.n
        self.events.append((k, op, path))
        if self.mode == "fault" and k == self.k:
            self.fired = True
            raise OSError(self.err, os.strerror(self.err) + " [injected]", path)
        if self.mode == "crash" and k == self.k and self.when == "before":
            os._exit(CRASH_STATUS)
        res = thunk()
        if self.mode == "crash" and k == self.k and self.when == "after":
            os._exit(CRASH_STATUS)
        return res

    # -- patched entry points
    def _open(self, orig):
        def patched(file, mode="r", *a, **kw):
            p = None if isinstance(file, int) else self._watched(file)
            if p is None:
                return orig(file, mode, *a, **kw)
            f = self._call("open", p, lambda: orig(file, mode, *a, **kw))
            return _FileProxy(self, f, p)
        return patched

    def _path_fn(self, name, orig, npaths=1):
        def patched(*a, **kw):
            if self._busy:
                return orig(*a, **kw)
            ps = [self._watched(x) for x in a[:npaths] if not isinstance(x, int)]
            p = next((x for x in ps if x), None)
            if p is None:
                return orig(*a, **kw)
            return self._call(name, p, lambda: orig(*a, **kw))
        return patched

    def __enter__(self):
        s = self._saved
        s["builtins.open"] = builtins.open
        s["io.open"] = io.open
        builtins.open = self._open(s["builtins.open"])
        io.open = builtins.open
        for name, npaths in (("stat", 1), ("lstat", 1), ("mkdir", 1), ("unlink", 1),
                             ("remove", 1), ("rename", 2), ("replace", 2), ("rmdir", 1),
                             ("listdir", 1), ("scandir", 1), ("open", 1)):
            s["os." + name] = getattr(os, name)
            setattr(os, name, self._path_fn(name if name != "open" else "os.open",
                                            s["os." + name], npaths))
        return self

    def __exit__(self, *a):
        s = self._saved
        builtins.open = s["builtins.open"]
        io.open = s["io.open"]
        for key, fn in s.items():
            if key.startswith("os."):
                setattr(os, key[3:], fn)
        return False


ERRNOS = {
    "open": [errno_mod.EACCES, errno_mod.EIO, errno_mod.ENOENT, errno_mod.ENOSPC],
    "os.open": [errno_mod.EACCES, errno_mod.EIO],
    "write": [errno_mod.ENOSPC, errno_mod.EIO],
    "flush": [errno_mod.ENOSPC, errno_mod.EIO],
    "close": [errno_mod.ENOSPC, errno_mod.EIO],
    "read": [errno_mod.EIO],
    "stat": [errno_mod.EACCES, errno_mod.EIO],
    "lstat": [errno_mod.EACCES, errno_mod.EIO],
    "mkdir": [errno_mod.EACCES, errno_mod.ENOSPC, errno_mod.EIO],
    "unlink": [errno_mod.EACCES, errno_mod.EIO],
    "remove": [errno_mod.EACCES, errno_mod.EIO],
    "rename": [errno_mod.EACCES, errno_mod.EIO],
    "replace": [errno_mod.EACCES, errno_mod.EIO],
    "rmdir": [errno_mod.EACCES, errno_mod.EIO],
    "listdir": [errno_mod.EACCES, errno_mod.EIO],
    "scandir": [errno_mod.EACCES, errno_mod.EIO],
}
