"""A short history of OTHER uses of the package, run once in every worker before the
monitors are attached and before the first case.

The properties quantify over inputs, configurations and histories of the operation they name;
none of them is conditional on the process being fresh.  A long-running conversion service,
a notebook or a test session has converted slice stacks, met corrupt chunks, been refused an
overwrite, averaged with an outside value and written sharded datasets before it performs
the operation a check looks at.  State that such earlier uses leave behind in the process
(module-level caches, class attributes, settings of third-party libraries, exit handlers
claimed by the first instance) then becomes visible to the check's own oracle.

Every step is independent and wrapped: a step that fails (on a tree under test that breaks
it) is skipped silently - judging those operations is the business of the check that owns
them.  Nothing here is counted by the reach monitors or traced (they start afterwards)."""
import os
import shutil
import tempfile

STEPS_DONE = []


def _step(fn):
    try:
        fn()
        STEPS_DONE.append(fn.__name__)
    except BaseException as exc:  # noqa: BLE001
        if isinstance(exc, KeyboardInterrupt):
            raise


def run():
    import numpy as np
    top = tempfile.mkdtemp(prefix="prelude-")

    def slice_stack():
        import pathlib

        import PIL.Image
        from neuroglancer_scripts.scripts import slices_to_precomputed
        import json
        sd = os.path.join(top, "slices")
        os.makedirs(sd)
        for i in range(5):      # RIA: columns = x (4), rows = z (3), slices = y (5)
            PIL.Image.fromarray(np.full((3, 4), 10 * i, dtype=np.uint8)).save(
                os.path.join(sd, f"s{i}.png"))
        dd = os.path.join(top, "sl")
        os.makedirs(dd)
        with open(os.path.join(dd, "info"), "w") as f:
            json.dump({"type": "image", "data_type": "uint8", "num_channels": 1,
                       "scales": [{"key": "full", "size": [4, 5, 3], "chunk_sizes": [[2, 2, 2]],
                                   "encoding": "raw", "resolution": [1, 1, 1],
                                   "voxel_offset": [0, 0, 0]}]}, f)
        slices_to_precomputed.convert_slices_in_directory([pathlib.Path(sd)], dd, "RIA",
                                                          options={"flat": True})

    def corrupt_chunks():
        from neuroglancer_scripts import chunk_encoding as ce
        for enc, size in ((ce.JpegChunkEncoder("uint8", 1), (2, 1, 1)),
                          (ce.CompressedSegmentationEncoder("uint32", 1, [8, 8, 8]), (3, 2, 2)),
                          (ce.RawChunkEncoder("uint16", 2), (3, 3, 1))):
            for buf in (b"", b"\xff\xd8\xff", b"\x01\x00\x00\x00" * 3, os.urandom(37)):
                try:
                    enc.decode(buf, size)
                except Exception:  # noqa: BLE001
                    pass

    def refused_store():
        from neuroglancer_scripts import file_accessor
        acc = file_accessor.FileAccessor(os.path.join(top, "fa"), gzip=True)
        acc.store_file("info", b"{}", mime_type="application/json")
        for name, mime in (("info", "application/json"), ("blob", "application/octet-stream")):
            try:
                acc.store_file(name, b"x" * 40, mime_type=mime, overwrite=False)
                acc.store_file(name, b"y" * 40, mime_type=mime, overwrite=False)
            except Exception:  # noqa: BLE001
                pass
        acc.store_chunk(b"z" * 64, "k", (0, 4, 0, 4, 0, 4))
        acc.fetch_chunk("k", (0, 4, 0, 4, 0, 4))
        try:
            acc.fetch_chunk("k", (4, 8, 0, 4, 0, 4))
        except Exception:  # noqa: BLE001
            pass

    def downscalers():
        from neuroglancer_scripts import downscaling
        a = np.arange(2 * 3 * 5 * 7, dtype=np.uint8).reshape(2, 3, 5, 7)
        for m, info, opts in (("average", None, {"outside_value": 255.0}),
                              ("auto", {"type": "image"}, {"outside_value": 7.0}),
                              ("average", None, {}), ("majority", None, {}),
                              ("stride", None, {"outside_value": 3.0})):
            downscaling.get_downscaler(m, info, opts).downscale(a, (2, 2, 1))

    def sharded_dataset():
        from neuroglancer_scripts import precomputed_io, sharded_file_accessor
        info = {"type": "image", "data_type": "uint16", "num_channels": 1, "scales": [
            {"key": "a", "size": [5, 4, 3], "chunk_sizes": [[2, 2, 2]], "encoding": "raw",
             "resolution": [1, 1, 1], "voxel_offset": [0, 0, 0],
             "sharding": {"@type": "neuroglancer_uint64_sharded_v1", "hash": "identity",
                          "minishard_bits": 1, "shard_bits": 1, "preshift_bits": 1,
                          "minishard_index_encoding": "gzip", "data_encoding": "gzip"}}]}
        acc = sharded_file_accessor.ShardedFileAccessor(os.path.join(top, "sh"))
        pio = precomputed_io.get_IO_for_new_dataset(info, acc)
        for x in (4, 0, 2):
            for y in (2, 0):
                for z in (0, 2):
                    c = (x, min(x + 2, 5), y, y + 2, z, min(z + 2, 3))
                    pio.write_chunk(np.full((1, c[5] - c[4], 2, c[1] - c[0]), x + y + z,
                                            dtype=np.uint16), "a", c)
        acc.close()
        rd = precomputed_io.get_IO_for_existing_dataset(
            sharded_file_accessor.ShardedFileAccessor(os.path.join(top, "sh")))
        rd.read_chunk("a", (0, 2, 0, 2, 0, 2))
        try:
            rd.read_chunk("a", (6, 8, 0, 2, 0, 2))
        except Exception:  # noqa: BLE001
            pass

    def volume_info():
        import nibabel
        from neuroglancer_scripts import volume_reader
        img = nibabel.Nifti1Image(np.zeros((3, 4, 5), dtype=np.int16),
                                  np.diag([2.0, 3.0, 0.5, 1.0]))
        volume_reader.nibabel_image_to_info(img)

    def pyramid_info():
        from neuroglancer_scripts import dyadic_pyramid
        from neuroglancer_scripts.scripts import generate_scales_info as gsi
        info = {"type": "image", "data_type": "uint8", "num_channels": 1,
                "scales": [{"size": [300, 200, 40], "resolution": [1, 1, 4],
                            "voxel_offset": [0, 0, 0]}]}
        gsi.set_info_params(info, encoding="jpeg")
        dyadic_pyramid.fill_scales_for_dyadic_pyramid(info, target_chunk_size=32,
                                                      max_scales=3)

    def dtype_conversion():
        from neuroglancer_scripts.data_types import get_chunk_dtype_transformer
        t = get_chunk_dtype_transformer(np.dtype("float32"), np.dtype("uint8"), warn=False)
        t(np.linspace(-3, 300, 24, dtype=np.float32).reshape(1, 2, 3, 4))
        t(np.linspace(0, 1, 24, dtype=np.float32).reshape(1, 2, 3, 4), preserve_input=False)

    def mesh():
        import io
        from neuroglancer_scripts import mesh as mesh_mod
        buf = io.BytesIO()
        mesh_mod.save_mesh_as_precomputed(buf, np.zeros((3, 3), dtype=np.float32),
                                          np.array([[0, 1, 2]], dtype=np.uint32))
        mesh_mod.read_precomputed_mesh(io.BytesIO(buf.getvalue()))

    import contextlib
    try:
        with open(os.devnull, "w") as dn, contextlib.redirect_stdout(dn), \
                contextlib.redirect_stderr(dn):
            for fn in (slice_stack, corrupt_chunks, refused_store, downscalers, sharded_dataset,
                       volume_info, pyramid_info, dtype_conversion, mesh):
                _step(fn)
    finally:
        shutil.rmtree(top, ignore_errors=True)
    return list(STEPS_DONE)
