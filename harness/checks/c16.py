"""C16 — generated metadata and transform place the image correctly in space.

Monitors: return values of nibabel_image_to_info and the files info_fullres.json /
transform.json written by `volume-to-precomputed --generate-info`, checked against the
file's affine: size, channels, data type, resolution = voxel size in nm, and for sampled
voxel indices  T . ((i + 1/2) * resolution) == A . i * 10^6 ; the compact URL form is parsed
back; sharding option strings give the matching sharding block or fail.
"""
import json
import os
import random
import shutil
import tempfile

PROPERTY = "C16"
LEVEL = "exploration"
RULE = ("case = (affine: rotation / shear / flip / axis permutation / general invertible 3x3 "
        "with column scales 10^-3..10^3 mm and |det| not tiny, translation up to 10^4 mm; "
        "shape 1..6 per axis; 3-D / 4-D / RGB; stored dtype incl. non-Neuroglancer ones; header "
        "scaling none / slope / intercept only; --ignore-scaling, --input-max; sharding option "
        "strings valid and malformed; library call or --generate-info command).  distinct = "
        "case signature; non-trivial = affine with off-diagonal terms")
ASSUMPTIONS = [
    "physical location of voxel centre i = A.(i,1) mm with A the affine nibabel reports for "
    "the image; tolerance 1e-9 relative to the volume extent + |translation|",
    "data type: the stored type when Neuroglancer supports it and no scaling applies, else "
    "float32 together with the documented 'imperfect' status (return value / exit status 4)"]
MANIFEST = {
    "level_text": "Oracle monitoring of the real metadata generator over random affines "
    "(rotations, shears, flips, anisotropy 10^-3..10^3) and volume layouts: size, channel "
    "count, data type rule, resolution and the corner-vs-centre relation are recomputed "
    "independently from the file's affine for sampled voxels; the compact URL form must "
    "parse back to the same matrix; sharding strings must produce the matching block or "
    "fail.  Both the library call and the --generate-info command (files parsed) are "
    "driven.  Exploration.",
    "level_note": "Trusted: nibabel's reading of the affine; NumPy float64 linear algebra "
    "within the stated tolerance.",
    "technique": "runtime monitoring: outputs of the real functions / written files checked "
    "by an independent geometric oracle on sampled voxels",
    "design_ref": "DESIGN.md section 2, C16",
}
REACH = ["nibabel_image_to_info", "store_nibabel_image_to_fullres_info",
         "nifti_to_neuroglancer_transform", "matrix_as_compact_urlsafe_json",
         "volume_file_to_info"]
WORKER_TIMEOUT = {"quick": 900, "thorough": 5400}
CASE_TIMEOUT = 120
NG = ("uint8", "uint16", "uint32", "uint64", "float32")


def gen_cases(tier, seed):
    rnd = random.Random(f"C16:{seed}")
    n = 8000 if tier == "quick" else 300000
    cases = []
    for k in range(n):
        cases.append({
            "aseed": rnd.randrange(2 ** 32),
            "akind": rnd.choice(["diag", "flip", "perm", "rot", "rot_aniso", "shear",
                                 "general", "general"]),
            "shape": [rnd.randint(1, 6) for _ in range(3)],
            "layout": rnd.choice(["3d", "3d", "4d", "rgb"]),
            "dtype": rnd.choice(["uint8", "int8", "uint16", "int16", "uint32", "int32",
                                 "float32", "float64", "uint64", "int64"]),
            "scal": rnd.choice([None, None, None, (2.0, 0.0), (1.0, -1024.0), (0.5, 3.0),
                                (1.0, 0.0)]),
            "ignore": rnd.random() < 0.15, "input_max": rnd.choice([None, None, None, 255.0]),
            "sharding": rnd.choice([None, None, None, None, None, None, "1,2,3", "0,0,0",
                                    "3,10,2", "1,2,3", ""] + (
                ["1,2", "a,b,c", "-1,0,0", "1,2,3,4", "1.5,2,3"] if rnd.random() < 0.3
                else [])),
            "gzip": rnd.random() < 0.5,
            "via": rnd.choice(["lib", "lib", "cli"])})
    for k in range(n // 4):
        cases.append({"compact": True, "mseed": rnd.randrange(2 ** 32)})
    return cases


def _affine(np, case):
    g = np.random.default_rng(case["aseed"])
    k = case["akind"]
    scales = 10 ** g.uniform(-3, 3, size=3) if k in ("rot_aniso", "general", "diag") \
        else 10 ** g.uniform(-1, 1) * np.ones(3)
    if case["aseed"] % 4 == 0:
        # microscopy: voxels from a few nanometres to a micrometre (in the file's mm)
        scales = scales / np.abs(scales) * 10 ** g.uniform(-5.7, -3, size=3) \
            if k in ("rot_aniso", "general", "diag") else 10 ** g.uniform(-5.7, -3) * np.ones(3)

    def rot():
        q, r = np.linalg.qr(g.normal(size=(3, 3)))
        q = q * np.sign(np.diag(r))
        if np.linalg.det(q) < 0:
            q[:, 0] = -q[:, 0]
        return q
    if k == "diag":
        M = np.diag(scales)
    elif k == "flip":
        M = np.diag(scales * g.choice([-1, 1], size=3))
    elif k == "perm":
        p = g.permutation(3)
        M = np.zeros((3, 3))
        for i in range(3):
            M[p[i], i] = scales[i] * g.choice([-1, 1])
    elif k in ("rot", "rot_aniso"):
        M = rot() * scales[np.newaxis, :]
        if g.random() < 0.3:
            M[:, 1] = -M[:, 1]
    elif k == "shear":
        M = np.eye(3) + np.triu(g.normal(size=(3, 3)) * 0.5, 1)
        M = rot() @ M * scales[np.newaxis, :]
    else:
        M = g.normal(size=(3, 3)) * scales[np.newaxis, :]
        while abs(np.linalg.det(M)) < 1e-3 * np.prod(np.linalg.norm(M, axis=0)):
            M = g.normal(size=(3, 3)) * scales[np.newaxis, :]
    A = np.eye(4)
    A[:3, :3] = M
    A[:3, 3] = g.normal(size=3) * 10 ** g.uniform(-2, 4)
    if case["aseed"] % 4 == 0:
        A[:3, 3] = g.normal(size=3) * 10 ** g.uniform(-4, 1)
    return A


def run_compact(case):
    """matrix_as_compact_urlsafe_json on matrices with entries of every magnitude: the string
    must contain no comma / space and parse back (after '_' -> ',') to exactly the matrix."""
    from neuroglancer_scripts import transform as tr
    rnd = random.Random(case["mseed"])
    obs = {"compact_matrices": 1, "compact_entries_with_exponent": 0}
    v = []

    def entry():
        r = rnd.random()
        if r < 0.2:
            return float(rnd.randint(-5, 5))
        if r < 0.3:
            return rnd.choice([0.0, -0.0, 1.0, -1.0, 1e6, 1000000.0, 123456789.0])
        if r < 0.6:
            mant = rnd.choice([1.0, 2.5, 1.25, 9.5, rnd.uniform(1, 10), 3.0, 7.75])
            return mant * 10.0 ** rnd.choice([-30, -20, -17, -16, -10, -9, -5, -4, 5, 10, 15,
                                              16, 17, 20, 21, 22, 30, 100, -100])
        return rnd.uniform(-1, 1) * 10.0 ** rnd.randint(-12, 12)
    M = [[entry() for _ in range(4)] for _ in range(4)]
    # the matrix arrives as nested lists, or as a float64 array in any memory layout (C order,
    # Fortran order as column-major libraries produce it, a transposed view)
    form = ("lists", "c_array", "f_array", "transposed_view")[case["mseed"] % 4]
    obs["compact_matrix_forms"] = {form: 1}
    arg = M
    if form != "lists":
        import numpy as np
        arg = np.array(M, dtype=np.float64)
        if form == "f_array":
            arg = np.asfortranarray(arg)
        elif form == "transposed_view":
            arg = np.ascontiguousarray(arg.T).T
    try:
        comp = tr.matrix_as_compact_urlsafe_json(arg)
    except Exception as exc:  # noqa: BLE001
        return {"violations": [{"kind": "compact-form-raised",
                                "detail": f"{M}: {type(exc).__name__}: {exc}"}], "obs": obs}
    if "e" in comp or "E" in comp:
        obs["compact_entries_with_exponent"] = 1
    try:
        back = json.loads(comp.replace("_", ","))
        same = all(float(back[i][j]) == float(M[i][j]) for i in range(4) for j in range(4))
    except Exception:  # noqa: BLE001
        same = False
    if not same or "," in comp or " " in comp:
        v.append({"kind": "compact-transform-does-not-parse-back",
                  "detail": f"matrix {M} -> {comp!r}"})
    return {"violations": v, "obs": obs, "sigs": [f"compact|{case['mseed']}"],
            "sample": {"compact_matrix_row": M[0], "compact": comp[:80]}}


def run_case(case):
    if case.get("compact"):
        return run_compact(case)
    import nibabel
    import numpy as np
    from neuroglancer_scripts import transform as tr
    from neuroglancer_scripts import volume_reader
    from neuroglancer_scripts.scripts import volume_to_precomputed as v2p
    A = _affine(np, case)
    shape = tuple(case["shape"])
    if case["layout"] == "rgb":
        dt = np.dtype([("R", "u1"), ("G", "u1"), ("B", "u1")])
        arr = np.zeros(shape, dt)
        arr["R"] = 3
        nch, stored = 3, "uint8"
    else:
        full = shape + ((2,) if case["layout"] == "4d" else ())
        arr = (np.arange(int(np.prod(full))) % 100).reshape(full).astype(case["dtype"])
        nch, stored = (2 if case["layout"] == "4d" else 1), case["dtype"]
    hdr = nibabel.Nifti1Header()
    hdr.set_data_dtype(arr.dtype)
    img = nibabel.Nifti1Image(arr, A, header=hdr)
    scal = case["scal"] if (case["layout"] != "rgb" and np.dtype(stored).kind in "iu") else None
    if scal:
        img.header.set_slope_inter(*scal)
    if case["aseed"] % 5 == 0:
        # a header that carries BOTH transformations, and they differ (scanner-space qform,
        # template-space sform): the file's affine - what nibabel reports - is the sform
        Q = np.eye(4)
        Q[:3, :3] = np.diag([0.7, 0.9, 1.3])
        Q[:3, 3] = [-11.0, 4.0, 25.0]
        img.header.set_qform(Q, code=1)
        img.header.set_sform(A, code=2)
    unit = None
    if case["aseed"] % 3 == 0:
        # the header declares a spatial unit; whatever convention the tool follows for it
        # (the documented one: coordinates are millimetres), it must follow it for the
        # resolution AND for the transform alike
        unit = ["micron", "meter", "mm", "unknown"][case["aseed"] // 3 % 4]
        img.header.set_xyzt_units(xyz=unit)
    top = tempfile.mkdtemp(prefix="c16-")
    obs = {"infos": 0, "voxels_checked": 0, "vias": {case["via"]: 1},
           "voxel_volume_below_1e_10_mm3": int(abs(np.linalg.det(A[:3, :3])) < 1e-10),
           "headers_with_differing_qform_and_sform": int(case["aseed"] % 5 == 0),
           "akinds": {case["akind"]: 1}, "imperfect_status": 0, "sharding_valid": 0,
           "sharding_malformed_refused": 0, "negative_det": 0, "worst_rel_err_e16": 0}
    v = []
    ctx = (f"{case['akind']} affine seed {case['aseed']} shape={shape} {case['layout']} "
           f"stored={stored} scal={scal} ignore={case['ignore']} input_max={case['input_max']} "
           f"sharding={case['sharding']!r} via={case['via']}")
    sharding = case["sharding"]
    bad_sharding = sharding in ("1,2", "a,b,c", "-1,0,0", "1,2,3,4", "1.5,2,3")
    opts = {"sharding": sharding, "gzip": case["gzip"]}
    try:
        fn = os.path.join(top, "v.nii")
        nibabel.save(img, fn)
        img2 = nibabel.load(fn)
        Aff = np.array(img2.affine, dtype=float)
        has_scal = not (img2.dataobj.slope == 1.0 and img2.dataobj.inter == 0.0)
        raised = None
        status = None
        try:
            if case["via"] == "lib":
                finfo, jt, indt, imp = volume_reader.nibabel_image_to_info(
                    img2, ignore_scaling=case["ignore"], input_max=case["input_max"],
                    options=opts)
                info = json.loads(finfo)
                status = 4 if imp else 0
                # the image handed in must not be modified, and asking again (e.g. with
                # other options) must give the same geometry
                if not np.array_equal(np.array(img2.affine, dtype=float), Aff):
                    v.append({"kind": "input-image-affine-modified",
                              "detail": f"{ctx}: img.affine changed by the call"})
                finfo2, jt2, _, _ = volume_reader.nibabel_image_to_info(
                    img2, ignore_scaling=case["ignore"], input_max=case["input_max"],
                    options={})
                obs["repeated_calls_on_one_image"] = 1
                i2 = json.loads(finfo2)
                if i2["scales"][0]["resolution"] != info["scales"][0]["resolution"] \
                        or not np.array_equal(np.array(jt2, float), np.array(jt, float)):
                    v.append({"kind": "second-call-on-the-same-image-differs",
                              "detail": f"{ctx}: resolution {i2['scales'][0]['resolution']} "
                              f"vs {info['scales'][0]['resolution']}"})
            else:
                dest = os.path.join(top, "out")
                argv = ["volume-to-precomputed", fn, dest, "--generate-info"]
                if case["ignore"]:
                    argv.append("--ignore-scaling")
                if case["input_max"] is not None:
                    argv += ["--input-max", repr(case["input_max"])]
                if sharding is not None:
                    argv += ["--sharding=" + sharding]
                if not case["gzip"]:
                    argv.append("--no-gzip")
                status = v2p.main(argv)
                with open(os.path.join(dest, "info_fullres.json")) as f:
                    info = json.load(f)
                with open(os.path.join(dest, "transform.json")) as f:
                    jt = json.load(f)
        except SystemExit as exc:
            raised = f"SystemExit({exc.code})"
        except Exception as exc:  # noqa: BLE001
            raised = f"{type(exc).__name__}: {str(exc)[:100]}"
        rgb_opts = case["layout"] == "rgb" and (case["ignore"] or case["input_max"] is not None)
        if raised:
            if bad_sharding:
                obs["sharding_malformed_refused"] = 1
                return {"violations": [], "obs": obs}
            if rgb_opts:
                return {"violations": [], "obs": obs}   # recorded under C01
            return {"violations": [{"kind": "metadata-generation-raised",
                                    "detail": f"{ctx}: {raised}"}], "obs": obs}
        if bad_sharding:
            v.append({"kind": "malformed-sharding-string-accepted",
                      "detail": f"{ctx}: produced {info['scales'][0].get('sharding')}"})
        obs["infos"] = 1
        sc = info["scales"][0]
        rgb_kf = {"known": "C16-rgb-with-input-max"} if (
            case["layout"] == "rgb" and case["input_max"] is not None) else {}
        if sc["size"] != list(shape) or info["num_channels"] != nch:
            v.append({"kind": "size-or-channels-wrong", **rgb_kf,
                      "detail": f"{ctx}: size {sc['size']} channels {info['num_channels']}"})
        # data type rule
        effective_float = (has_scal and not case["ignore"]) or case["input_max"] is not None
        if case["layout"] == "rgb":
            effective_float = False
        want_dt = stored if (stored in NG and not effective_float) else "float32"
        want_imp = not (stored in NG and not effective_float)
        if stored == "float32" and effective_float:
            pass
        if info["data_type"] != want_dt:
            v.append({"kind": "data-type-cannot-be-justified", **rgb_kf,
                      "detail": f"{ctx}: info says {info['data_type']}, values are "
                      f"{'scaled floating point' if effective_float else stored}, expected "
                      f"{want_dt}"})
        if (status == 4) != want_imp and not (effective_float and stored in ("float32",
                                                                          "float64")):
            v.append({"kind": "imperfect-type-status-wrong", **rgb_kf,
                      "detail": f"{ctx}: status {status}, expected {4 if want_imp else 0}"})
        if status == 4:
            obs["imperfect_status"] = 1
        # resolution
        vs = np.linalg.norm(Aff[:3, :3], axis=0)
        res = np.array(sc["resolution"], dtype=float)
        U = 1e6
        cands = [1e6] + ([{"micron": 1e3, "meter": 1e9}[unit]] if unit in ("micron", "meter")
                         else [])
        if unit:
            obs["headers_declaring_a_spatial_unit"] = 1
        match = [u for u in cands if np.allclose(res, vs * u, rtol=1e-9, atol=0)]
        if not match:
            v.append({"kind": "resolution-is-not-the-voxel-size",
                      "detail": f"{ctx}: resolution {res.tolist()} vs voxel size "
                      f"{(vs * 1e6).tolist()} nm (header unit {unit})"})
        else:
            U = match[0]
        # transform relation
        T = np.array(jt, dtype=float)
        if T.shape != (4, 4) or not np.array_equal(T[3], [0, 0, 0, 1]):
            v.append({"kind": "transform-not-homogeneous", "detail": f"{ctx}: {T.tolist()}"})
        else:
            if np.linalg.det(Aff[:3, :3]) < 0:
                obs["negative_det"] = 1
            extent = (np.abs(Aff[:3, :3]) @ np.array(shape, dtype=float)).max() * U \
                + np.abs(Aff[:3, 3]).max() * U
            rnd = random.Random(case["aseed"])
            idxs = [[0, 0, 0], [s - 1 for s in shape]] + [
                [rnd.randint(0, s - 1) for s in shape] for _ in range(4)]
            for i in idxs:
                i = np.array(i, dtype=float)
                phys = (Aff @ np.append(i, 1.0))[:3] * U
                ng = (T @ np.append((i + 0.5) * res, 1.0))[:3]
                err = np.abs(phys - ng).max() / extent
                obs["voxels_checked"] += 1
                obs["worst_rel_err_e16"] = max(obs["worst_rel_err_e16"], int(err * 1e16))
                if err > 1e-9:
                    v.append({"kind": "transform-misplaces-voxel",
                              "detail": f"{ctx}: voxel {i.tolist()} centre is at "
                              f"{phys.tolist()} nm, the transform puts it at {ng.tolist()} "
                              f"(relative error {err:.3g})"})
                    break
        comp = tr.matrix_as_compact_urlsafe_json(jt)
        try:
            back = json.loads(comp.replace("_", ","))
            if not np.array_equal(np.array(back, dtype=float), np.array(jt, dtype=float)) \
                    or "," in comp or " " in comp:
                v.append({"kind": "compact-transform-does-not-parse-back",
                          "detail": f"{ctx}: {comp}"})
        except Exception as exc:  # noqa: BLE001
            v.append({"kind": "compact-transform-unparseable", "detail": f"{ctx}: {comp}: {exc}"})
        # sharding block
        if sharding and not bad_sharding:
            mb, sb, pb = (int(x) for x in sharding.split(","))
            enc = "gzip" if case["gzip"] else "raw"
            want = {"@type": "neuroglancer_uint64_sharded_v1", "hash": "identity",
                    "minishard_bits": mb, "shard_bits": sb, "preshift_bits": pb,
                    "minishard_index_encoding": enc, "data_encoding": enc}
            if sc.get("sharding") != want:
                v.append({"kind": "sharding-block-differs-from-option",
                          "detail": f"{ctx}: {sc.get('sharding')} vs {want}"})
            obs["sharding_valid"] = 1
        elif not sharding and "sharding" in sc:
            v.append({"kind": "unexpected-sharding-block", "detail": ctx})
        # ---- the same destination asked to describe ANOTHER image (corrected header):
        # refused with both files left as they are, or both files describe the new image -
        # never the description of one image next to the transform of the other
        if case["via"] == "cli" and not v and case["aseed"] % 2 == 0:
            A2 = np.array(Aff)
            A2[:3, :3] *= 2.0
            A2[:3, 3] += 7.0
            fn2 = os.path.join(top, "v2.nii")
            nibabel.save(nibabel.Nifti1Image(arr, A2, header=img.header), fn2)
            Aff2 = np.array(nibabel.load(fn2).affine, dtype=float)
            try:
                st2 = v2p.main([fn2 if a == fn else a for a in argv])
            except SystemExit as exc:
                st2 = exc.code
            except Exception as exc:  # noqa: BLE001
                st2 = type(exc).__name__
            obs["second_description_into_the_same_directory"] = 1
            with open(os.path.join(dest, "info_fullres.json")) as f:
                info_b = json.load(f)
            with open(os.path.join(dest, "transform.json")) as f:
                jt_b = json.load(f)
            res_b = np.array(info_b["scales"][0]["resolution"], dtype=float)
            new_res = np.allclose(res_b, np.linalg.norm(Aff2[:3, :3], axis=0) * U, rtol=1e-9)
            Tb = np.array(jt_b, dtype=float)
            centre = (Tb @ np.append(0.5 * res_b, 1.0))[:3]
            new_t = np.allclose(centre, Aff2[:3, 3] * U, rtol=1e-7, atol=1e-6 * U)
            old_res = info_b == info
            old_t = jt_b == jt
            if st2 in (0, 4, None):
                ok2 = new_res and new_t
            else:
                ok2 = old_res and old_t
            if not ok2:
                v.append({"kind": "description-and-transform-of-different-images",
                          "detail": f"{ctx}: second --generate-info ended with {st2!r}; "
                          f"info_fullres.json describes the {'new' if new_res else 'old' if old_res else '?'} "
                          f"image, transform.json the {'new' if new_t else 'old' if old_t else '?'} one"})
    finally:
        shutil.rmtree(top, ignore_errors=True)
    wre = obs.pop("worst_rel_err_e16")
    obs["worst_rel_err_e16_seen"] = [wre]
    sig = "|".join(str(case[k]) for k in ("akind", "aseed", "shape", "layout", "dtype",
                                          "scal", "ignore", "input_max", "sharding", "via"))
    return {"violations": v[:5], "obs": obs,
            "sigs": [sig] if case["akind"] not in ("diag",) else [],
            "sample": {k: case[k] for k in ("akind", "shape", "layout", "dtype", "scal",
                                            "ignore", "input_max", "sharding", "via")}}


def gates(obs, tier):
    calls = obs.get("calls", {})
    return {
        "functions_reached": calls.get("nibabel_image_to_info", 0) > 0
        and calls.get("nifti_to_neuroglancer_transform", 0) > 0
        and calls.get("volume_file_to_info", 0) > 0,
        "all_affine_kinds": len(obs.get("akinds", {})) == 7,
        "library_and_command_line": len(obs.get("vias", {})) == 2,
        "voxels_checked": obs.get("voxels_checked", 0) > 1000,
        "sub_micrometre_voxels": obs.get("voxel_volume_below_1e_10_mm3", 0) > 100,
        "compact_form_of_arrays_in_every_memory_layout": len(
            obs.get("compact_matrix_forms", {})) == 4,
        "headers_with_differing_qform_and_sform": obs.get(
            "headers_with_differing_qform_and_sform", 0) > 100,
        "headers_declaring_a_spatial_unit": obs.get("headers_declaring_a_spatial_unit", 0) > 100,
        "second_description_into_the_same_directory": obs.get(
            "second_description_into_the_same_directory", 0) > 20,
        "imperfect_status_seen": obs.get("imperfect_status", 0) > 10,
        "mirroring_affines": obs.get("negative_det", 0) > 10,
        "compact_forms_with_exponents": obs.get("compact_entries_with_exponent", 0) > 50,
        "repeated_calls_on_one_image": obs.get("repeated_calls_on_one_image", 0) > 50,
        "sharding_strings_valid_and_malformed": obs.get("sharding_valid", 0) > 5
        and obs.get("sharding_malformed_refused", 0) > 5,
    }
