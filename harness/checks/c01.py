"""C01 — volume conversion preserves every voxel of the input image.

Monitor: decoded chunks of scale 0 read back through a FRESH accessor + PrecomputedIO and
reassembled into a (C,Z,Y,X) array, compared voxel by voxel with an exact-rational
expectation computed from the stored array and the header values of the NIfTI file.  A
class-level tracer on PrecomputedIO.write_chunk records which chunks the conversion wrote.
"""
import itertools
import json
import os
import random
import shutil
import subprocess
import sys
import tempfile
from fractions import Fraction

from harness import shardlib
from harness.refs import dtype_exact as dx

PROPERTY = "C01"
LEVEL = "exploration"
RULE = ("case = synthetic NIfTI (.nii / .nii.gz, little/big endian) with shape 1..24 per axis "
        "(single-voxel axes, sizes not divisible by the chunk size), stored dtype u8,i8,u16,"
        "i16,u32,i32,f32,f64,i64,u64, header slope/intercept present or not, 3-D / 4-D "
        "multi-channel / RGB; options --ignore-scaling, --input-min/--input-max, --mmap; "
        "every target data_type; info hand-written (non-power-of-two, non-cubic chunks) or "
        "produced by the real generate-scales-info; raw / compressed_segmentation; deep / "
        "flat / gzip in-process and sharded + a sample of the others through the real "
        "command line.  distinct = case signature; non-trivial = more than one chunk")
ASSUMPTIONS = [
    "expectation = exact rational image of the stored value under header slope/intercept (as "
    "the float32 values the header holds), optional min/max rescaling, round-half-even, "
    "clip; nibabel evaluates the mapping in float64, so when the exact image lies within "
    "2^-46*(|raw*slope|+|intercept|+1) of a rounding tie or clip edge either neighbour is "
    "accepted (never a wider set); when every intermediate is exactly representable in "
    "float64 the exact result is demanded",
    "float32 targets: |result - exact| <= 1e-6*|exact| + the same absolute float64 slack "
    "(cancellation may leave a residue of the order of 1e-17 where the exact value is 0)",
    "finite voxel values only"]
MANIFEST = {
    "level_text": "End-to-end reference monitoring of the real conversion (library entry "
    "point in-process, command line in a subprocess for sharded output): every voxel of "
    "scale 0, re-read through a fresh accessor, is compared with an exact-rational "
    "expectation derived from the file's stored array and header; a write tracer confirms "
    "that every grid chunk was written.  Coverage gates: all stored dtypes, all target "
    "types, header scaling combined with min/max rescaling, mmap, RGB, multi-channel, "
    "sharded, compressed_segmentation, partial border chunks, single-voxel axes.",
    "level_note": "Trusted: nibabel for writing the test files and for returning the stored "
    "array/header values; refs/dtype_exact.py.  Volumes too large for memory (the reason "
    "--mmap exists) are represented only by small files.",
    "technique": "runtime monitoring: end-to-end differential against an exact rational "
    "reference model of the documented value mapping; write tracer for chunk coverage",
    "design_ref": "DESIGN.md section 2, C01",
}
REACH = ["volume_file_to_precomputed", "nibabel_image_to_precomputed",
         "volume_to_precomputed", "chunk_transformer", "PrecomputedIO.write_chunk"]
WORKER_TIMEOUT = {"quick": 1200, "thorough": 7200}
CASE_TIMEOUT = 300
STORED = ["uint8", "int8", "uint16", "int16", "uint32", "int32", "float32", "float64",
          "int64", "uint64"]
TARGETS = ["uint8", "uint16", "uint32", "uint64", "float32"]
KF_U64 = "C01-uint64-target-above-2^53"
KF_RGB = "C01-rgb-with-scaling-options"
_WRITES = []


def gen_cases(tier, seed):
    rnd = random.Random(f"C01:{seed}")
    n = 220 if tier == "quick" else 4000
    cases = []
    for k in range(n):
        layout = rnd.choice(["3d", "3d", "3d", "4d", "rgb"])
        hi = rnd.choice([6, 10, 24])
        shape = [rnd.randint(1, hi) for _ in range(3)]
        if rnd.random() < 0.15:
            shape[rnd.randrange(3)] = 1
        long_axis = rnd.random() < 0.12
        if long_axis:
            # one axis beyond 128 / 256 voxels (default 64-voxel chunks), others tiny
            shape = [rnd.randint(1, 4) for _ in range(3)]
            shape[rnd.randrange(3)] = rnd.choice([129, 200, 257, 300])
        stored = "uint8" if layout == "rgb" else rnd.choice(STORED)
        target = rnd.choice(TARGETS)
        enc = "compressed_segmentation" if target in ("uint32", "uint64") \
            and rnd.random() < 0.3 else "raw"
        storage = rnd.choice(["deep", "flat", "gzip", "flatgzip", "sharded", "sharded"])
        scal = rnd.choice([None, None, (0.5, 10.0), (2.0, -3.0), (0.1, 0.25), (1.0, 0.0),
                           (1.0, -1024.0), (0.00390625, 0.0), (3.0, 100.0), (1.0, 32768.0)])
        mm = rnd.choice([None, None, None, (None, 1000.0), (-100.0, 500.0), (0.0, 255.0),
                         (110.0, 620.0), (0.0, 1.0), (None, 65535.0), (255.0, 0.0),
                         (500.0, -300.0)])
        cases.append({
            "layout": layout, "shape": shape, "channels": rnd.choice([2, 3, 4]),
            "stored": stored, "target": target, "encoding": enc, "storage": storage,
            "scal": scal, "ignore": rnd.random() < 0.2, "mm": mm,
            "mmap": rnd.random() < 0.4, "gz": rnd.random() < 0.4,
            "bigendian": rnd.random() < 0.2,
            "info": rnd.choice(["hand", "hand", "generated"]),
            "chunk": [rnd.choice([1, 2, 3, 4, 5, 8]) for _ in range(3)] if not long_axis
            else [64, 64, 64],
            "gen_target": 64 if long_axis else rnd.choice([2, 4, 8]),
            "long_axis": long_axis,
            "cli": rnd.random() < 0.12,
            "shard_bits": [rnd.randint(0, 3), rnd.randint(0, 3), rnd.randint(0, 3)],
            "vseed": rnd.randrange(2 ** 32)})
    # directed: a window that is the identity for the stored type (the combined scaling is
    # then the identity, and nibabel hands out the on-disk type)
    for k, (st_, tg_, mm_) in enumerate([("uint8", "uint8", (0.0, 255.0)),
                                        ("uint8", "uint8", (None, 255.0)),
                                        ("uint16", "uint16", (0.0, 65535.0)),
                                        ("float32", "float32", (0.0, 1.0)),
                                        ("uint8", "uint16", (0.0, 255.0)),
                                        ("uint16", "uint8", (0.0, 65535.0))]):
        c = dict(cases[k])
        c.update({"layout": "3d", "stored": st_, "target": tg_, "mm": mm_, "scal": None,
                  "ignore": False, "encoding": "raw", "mmap": k % 2 == 1,
                  "bigendian": False, "identity_window": True,
                  "vseed": rnd.randrange(2 ** 32)})
        cases.append(c)
    # directed: 64-bit labels above 2^53 stored and kept as uint64 (no arithmetic is needed:
    # every label comes out as it went in, whichever way the file is loaded)
    for k in range(4):
        c = dict(cases[10 + k])
        c.update({"layout": "3d" if k < 3 else "4d", "stored": "uint64", "target": "uint64",
                  "mm": None, "scal": None, "ignore": False, "mmap": k % 2 == 1,
                  "encoding": "raw" if k < 2 else "compressed_segmentation",
                  "big_labels": True, "vseed": rnd.randrange(2 ** 32)})
        cases.append(c)
    # directed: chunks of more than 2^20 voxels (vectorised integer expectation)
    for k in range(3 if tier == "quick" else 12):
        cases.append({"huge": True, "stored": ["uint8", "int16", "uint16"][k % 3],
                      "target": ["uint8", "uint8", "float32", "uint16"][k % 4],
                      "mmap": k % 2 == 1, "storage": ["flat", "gzip", "deep"][k % 3],
                      "vseed": rnd.randrange(2 ** 32)})
    return cases


def worker_init():
    from neuroglancer_scripts import precomputed_io
    orig = precomputed_io.PrecomputedIO.write_chunk

    def traced(self, chunk, scale_key, chunk_coords):
        _WRITES.append((scale_key, tuple(int(c) for c in chunk_coords), tuple(chunk.shape)))
        return orig(self, chunk, scale_key, chunk_coords)
    precomputed_io.PrecomputedIO.write_chunk = traced


def _make_volume(np, nibabel, case, path):
    g = np.random.default_rng(case["vseed"])
    shape = tuple(case["shape"])
    if case["layout"] == "rgb":
        dt = np.dtype([("R", "u1"), ("G", "u1"), ("B", "u1")])
        raw = np.zeros(shape, dtype=dt)
        for i, name in enumerate("RGB"):
            raw[name] = g.integers(0, 255, size=shape, dtype=np.uint8, endpoint=True)
    else:
        full = shape + ((case["channels"],) if case["layout"] == "4d" else ())
        dt = np.dtype(case["stored"])
        n = int(np.prod(full))
        idx = np.arange(n, dtype=np.int64).reshape(full, order="F")
        if dt.kind == "f":
            raw = ((idx * 37) % 4001 - 2000).astype(dt) / case.get("fdiv", 4)
            raw = raw.astype(dt)
        else:
            ii = np.iinfo(dt)
            lo, hi = max(ii.min, -40000), min(ii.max, 70000)
            span = hi - lo + 1
            raw = ((idx * 7919 + g.integers(0, span)) % span + lo).astype(dt)
            if dt.itemsize == 8 and case.get("big_labels"):
                raw = raw + dt.type(2 ** 53)
            elif dt.itemsize == 8 and g.random() < 0.3:
                raw = raw + (dt.type(2 ** 53) if g.random() < 0.5 else dt.type(2 ** 40))
    hdr = nibabel.Nifti1Header(endianness=">" if case["bigendian"] else "<")
    hdr.set_data_dtype(raw.dtype)
    img = nibabel.Nifti1Image(raw, np.diag([1., 2., 3., 1.]), header=hdr)
    if case["scal"] and case["layout"] != "rgb" and np.dtype(case["stored"]).kind in "iu":
        img.header.set_slope_inter(*case["scal"])
    nibabel.save(img, path)


def _expected(np, raw_vals, slope, inter, case, out):
    """-> list of (exact Fraction value, tolerance Fraction)"""
    ignore = case["ignore"]
    s = Fraction(1) if ignore or slope is None else Fraction(slope)
    t = Fraction(0) if ignore or inter is None else Fraction(inter)
    if out in dx.INT_RANGE:
        omin, omax = dx.INT_RANGE[out]
    else:
        omin, omax = 0, 1
    if case["mm"] is not None:
        imin, imax = case["mm"]
        mn = Fraction(imin if imin is not None else 0)
        ps = Fraction(omax - omin) / (Fraction(imax) - mn)
        pi = Fraction(omin) - mn * ps
        s, t = s * ps, t * ps + pi

    def exact64(q):
        try:
            return Fraction(float(q)) == q
        except OverflowError:
            return False
    st_exact = exact64(s) and exact64(t)
    out_vals = []
    for r in raw_vals:
        rs = r * s
        v = rs + t
        if (st_exact and exact64(rs) and exact64(v)) or (s == 1 and t == 0):
            # (an identity mapping needs no arithmetic at all)
            tol = Fraction(0)
        else:
            tol = Fraction(1, 2 ** 46) * (abs(rs) + abs(t) + 1)
        out_vals.append((v, tol))
    return out_vals


def run_huge(case):
    """One chunk of more than 2^20 voxels; no header scaling, so the expectation is the
    stored value saturated to the target range (exact, vectorised)."""
    import nibabel
    import numpy as np
    from neuroglancer_scripts import accessor as accessor_mod
    from neuroglancer_scripts import precomputed_io, volume_reader
    top = tempfile.mkdtemp(prefix="c01h-")
    obs = {"conversions": 0, "voxels_compared": 0, "huge_chunks": 1,
           "stored": {case["stored"]: 1}, "targets": {case["target"]: 1},
           "storage": {case["storage"]: 1}, "layouts": {"3d": 1}, "mmap": int(case["mmap"])}
    v = []
    try:
        shape = (130, 129, 131)
        g = np.random.default_rng(case["vseed"])
        dt = np.dtype(case["stored"])
        ii = np.iinfo(dt)
        raw = g.integers(max(ii.min, -3000), min(ii.max, 3000), size=shape,
                         endpoint=True).astype(dt)
        fn = os.path.join(top, "v.nii")
        hdr = nibabel.Nifti1Header()
        hdr.set_data_dtype(dt)
        nibabel.save(nibabel.Nifti1Image(raw, np.eye(4), header=hdr), fn)
        dest = os.path.join(top, "out")
        os.makedirs(dest)
        info = {"type": "image", "data_type": case["target"], "num_channels": 1,
                "scales": [{"key": "k", "size": list(shape), "chunk_sizes": [[128] * 3],
                            "encoding": "raw", "resolution": [1e6] * 3,
                            "voxel_offset": [0, 0, 0]}]}
        with open(os.path.join(dest, "info"), "w") as f:
            json.dump(info, f)
        ctx = f"huge chunk {shape} stored={case['stored']} -> {case['target']} " \
              f"mmap={case['mmap']} {case['storage']}"
        try:
            rc = volume_reader.volume_file_to_precomputed(
                fn, dest, load_full_volume=not case["mmap"],
                options={"gzip": case["storage"] == "gzip",
                         "flat": case["storage"] == "flat"})
        except Exception as exc:  # noqa: BLE001
            return {"violations": [{"kind": "conversion-of-admissible-input-failed",
                                    "detail": f"{ctx}: {type(exc).__name__}: {exc}"}],
                    "obs": obs}
        obs["conversions"] = 1
        pio = precomputed_io.get_IO_for_existing_dataset(
            accessor_mod.get_accessor_for_url(dest))
        want = np.moveaxis(raw.astype(np.int64), (0, 1, 2), (2, 1, 0))[np.newaxis]
        if case["target"] in dx.INT_RANGE:
            lo, hi = dx.INT_RANGE[case["target"]]
            want = np.clip(want, lo, hi)
        X, Y, Z = shape
        for x, y, z in itertools.product(range(0, X, 128), range(0, Y, 128),
                                         range(0, Z, 128)):
            c = (x, min(x + 128, X), y, min(y + 128, Y), z, min(z + 128, Z))
            got = np.asarray(pio.read_chunk("k", c))
            exp = want[:, c[4]:c[5], c[2]:c[3], c[0]:c[1]]
            obs["voxels_compared"] += int(exp.size)
            if got.shape != exp.shape or not np.array_equal(got.astype(np.float64),
                                                            exp.astype(np.float64)):
                n = int((got.astype(np.float64) != exp.astype(np.float64)).sum()) \
                    if got.shape == exp.shape else -1
                v.append({"kind": "voxel-differs-from-mapped-input",
                          "detail": f"{ctx}: chunk {c}: {n} of {exp.size} voxels differ"})
                break
    finally:
        shutil.rmtree(top, ignore_errors=True)
    return {"violations": v, "obs": obs, "sigs": [f"huge|{case['stored']}|{case['target']}|"
                                                  f"{case['mmap']}|{case['storage']}"],
            "sample": {"huge": True, "stored": case["stored"], "target": case["target"]}}


def run_case(case):
    if case.get("huge"):
        return run_huge(case)
    import nibabel
    import numpy as np
    from neuroglancer_scripts import accessor as accessor_mod
    from neuroglancer_scripts import precomputed_io, volume_reader
    from neuroglancer_scripts.scripts import generate_scales_info as gsi
    top = tempfile.mkdtemp(prefix="c01-")
    obs = {"conversions": 0, "voxels_compared": 0, "chunks_written": 0, "chunks_read": 0,
           "stored": {case["stored"] if case["layout"] != "rgb" else "rgb": 1},
           "targets": {case["target"]: 1}, "storage": {case["storage"]: 1},
           "layouts": {case["layout"]: 1}, "cli_runs": 0, "mmap": int(case["mmap"]),
           "uint64_labels_above_2_53_kept_as_uint64": int(bool(case.get("big_labels"))),
           "header_scaling_with_minmax": 0, "ignore_scaling": int(case["ignore"]),
           "partial_border_chunk": 0, "single_voxel_axis": int(1 in case["shape"]),
           "tolerance_used": 0, "exact_demanded": 0, "bigendian": int(case["bigendian"]),
           "cseg": int(case["encoding"] != "raw"), "long_axis": int(case.get("long_axis", 0))}
    v = []
    try:
        fn = os.path.join(top, "vol.nii" + (".gz" if case["gz"] else ""))
        _make_volume(np, nibabel, case, fn)
        img2 = nibabel.load(fn)
        rawstored = np.asarray(img2.dataobj.get_unscaled())
        slope, inter = img2.dataobj.slope, img2.dataobj.inter
        has_scal = not (slope == 1.0 and inter == 0.0)
        if case["layout"] == "rgb":
            rawstored = np.stack([rawstored[n] for n in "RGB"], axis=-1)
        src = rawstored if rawstored.ndim == 4 else rawstored[..., None]
        X, Y, Z, C = src.shape
        dest = os.path.join(top, "out")
        os.makedirs(dest)
        # ---- info
        cs = list(case["chunk"])
        sharded = case["storage"] == "sharded"
        if sharded:
            cs = [cs[0]] * 3
        base = {"type": "image", "data_type": case["target"], "num_channels": C,
                "scales": [{"size": [X, Y, Z], "encoding": case["encoding"],
                            "resolution": [1e6, 2e6, 3e6], "voxel_offset": [0, 0, 0]}]}
        if case["encoding"] != "raw":
            base["type"] = "segmentation"
            base["scales"][0]["compressed_segmentation_block_size"] = [
                random.Random(case["vseed"]).choice([1, 2, 4, 8]) for _ in range(3)]
        mb, sb, pb = case["shard_bits"]
        if case["info"] == "generated" and not sharded:
            src_info = os.path.join(top, "info_fullres.json")
            with open(src_info, "w") as f:
                json.dump(base, f)
            gsi.generate_scales_info(src_info, dest, target_chunk_size=case["gen_target"])
            with open(os.path.join(dest, "info")) as f:
                info = json.load(f)
        else:
            info = base
            info["scales"][0]["key"] = "k"
            info["scales"][0]["chunk_sizes"] = [cs]
            if sharded:
                info["scales"][0]["sharding"] = {
                    "@type": "neuroglancer_uint64_sharded_v1", "hash": "identity",
                    "minishard_bits": mb, "shard_bits": sb, "preshift_bits": pb,
                    "minishard_index_encoding": ("raw", "gzip")[(mb + pb) % 2],
                    "data_encoding": ("raw", "gzip")[(sb + pb) % 2]}
            with open(os.path.join(dest, "info"), "w") as f:
                json.dump(info, f)
        sc0 = info["scales"][0]
        cs = sc0["chunk_sizes"][0]
        key = sc0["key"]
        grid = [(x, min(x + cs[0], X), y, min(y + cs[1], Y), z, min(z + cs[2], Z))
                for x, y, z in itertools.product(range(0, X, cs[0]), range(0, Y, cs[1]),
                                                 range(0, Z, cs[2]))]
        obs["partial_border_chunk"] = int(X % cs[0] != 0 or Y % cs[1] != 0 or Z % cs[2] != 0)
        opts = {"gzip": case["storage"] in ("gzip", "flatgzip"),
                "flat": case["storage"] in ("flat", "flatgzip")}
        ctx = (f"{case['layout']} shape={[X, Y, Z, C]} stored={case['stored']}"
               f"{' BE' if case['bigendian'] else ''} header(slope,inter)=({slope},{inter}) "
               f"ignore={case['ignore']} minmax={case['mm']} mmap={case['mmap']} -> "
               f"{case['target']} {case['encoding']} chunks={cs} {case['storage']}")
        imin = case["mm"][0] if case["mm"] else None
        imax = case["mm"][1] if case["mm"] else None
        rgb_kf = case["layout"] == "rgb" and (case["ignore"] or case["mm"] is not None)
        use_cli = sharded or case["cli"]
        err = None
        if use_cli:
            argv = [sys.executable, "-W", "ignore", "-m",
                    "neuroglancer_scripts.scripts.volume_to_precomputed", fn, dest]
            if case["ignore"]:
                argv.append("--ignore-scaling")
            if case["mmap"]:
                argv.append("--mmap")
            if case["mm"]:
                if imin is not None:
                    argv += ["--input-min", repr(imin)]
                argv += ["--input-max", repr(imax)]
            if not opts["gzip"] and not sharded:
                argv.append("--no-gzip")
            if opts["flat"] and not sharded:
                argv.append("--flat")
            env = dict(os.environ, TQDM_DISABLE="1")
            p = subprocess.run(argv, capture_output=True, text=True, timeout=240, env=env)
            obs["cli_runs"] = 1
            if p.returncode != 0:
                err = f"exit status {p.returncode}: {p.stderr.strip().splitlines()[-1:]}"
                if rgb_kf:
                    err = "refused (RGB with scaling options): " + err
        else:
            del _WRITES[:]
            try:
                rc = volume_reader.volume_file_to_precomputed(
                    fn, dest, ignore_scaling=case["ignore"], input_min=imin, input_max=imax,
                    load_full_volume=not case["mmap"], options=opts)
                if rc not in (None, 0):
                    err = f"returned status {rc}"
            except Exception as exc:  # noqa: BLE001
                err = f"{type(exc).__name__}: {str(exc)[:160]}"
        if err:
            v.append({"kind": "conversion-of-admissible-input-failed",
                      "detail": f"{ctx}: {err}",
                      **({"known": KF_RGB} if rgb_kf else {})})
            return {"violations": v, "obs": obs}
        obs["conversions"] = 1
        if not use_cli:
            wrote = {c for k2, c, _ in _WRITES if k2 == key}
            obs["chunks_written"] = len(wrote)
            if wrote != set(grid):
                v.append({"kind": "grid-chunks-not-all-written",
                          "detail": f"{ctx}: write_chunk saw {len(wrote)} of {len(grid)} "
                          f"grid chunks; missing {sorted(set(grid) - wrote)[:3]}"})
        if has_scal and case["mm"] is not None and not case["ignore"]:
            obs["header_scaling_with_minmax"] = 1
        # ---- read back through a fresh accessor
        pio = precomputed_io.get_IO_for_existing_dataset(
            accessor_mod.get_accessor_for_url(dest))
        got = np.zeros((C, Z, Y, X), dtype=case["target"])
        for c in grid:
            try:
                got[:, c[4]:c[5], c[2]:c[3], c[0]:c[1]] = pio.read_chunk(key, c)
                obs["chunks_read"] += 1
            except Exception as exc:  # noqa: BLE001
                v.append({"kind": "chunk-missing-or-unreadable",
                          "detail": f"{ctx}: chunk {c}: {type(exc).__name__}: "
                          f"{str(exc)[:120]}"})
                return {"violations": v, "obs": obs}
        # ---- oracle
        flat_src = src.ravel(order="C").tolist()     # (x,y,z,c) C-order
        if src.dtype.kind in "iu":
            raw_vals = [Fraction(int(a)) for a in flat_src]
        else:
            raw_vals = [Fraction(float(a)) for a in flat_src]
        exp = _expected(np, raw_vals, slope if has_scal else None,
                        inter if has_scal else None, case, case["target"])
        g = np.moveaxis(got, (0, 1, 2, 3), (3, 2, 1, 0)).ravel(order="C").tolist()
        out = case["target"]
        for n, ((val, tol), gv) in enumerate(zip(exp, g)):
            obs["voxels_compared"] += 1
            known = None
            if out in dx.INT_RANGE:
                lo, hi = dx.INT_RANGE[out]
                if tol == 0:
                    cand = {max(lo, min(hi, dx.round_half_even(val)))}
                    obs["exact_demanded"] += 1
                    ok = int(gv) in cand
                else:
                    c_lo = max(lo, min(hi, dx.round_half_even(val - tol)))
                    c_hi = max(lo, min(hi, dx.round_half_even(val + tol)))
                    cand = {c_lo, c_hi}
                    if c_hi > c_lo:
                        obs["tolerance_used"] += 1
                    ok = c_lo <= int(gv) <= c_hi
                if out == "uint64" and abs(val) > 2 ** 53 and not (
                        case["stored"] == "uint64" and case["mm"] is None
                        and (not case["scal"] or case["ignore"])):
                    # (uint64 voxels stored as they are need no arithmetic: exact)
                    known = KF_U64
            else:
                fv = float(val)
                # relative 1e-6 of the value plus the same absolute float64 evaluation slack
                # as for integer targets (cancellation can leave a tiny residue at 0)
                ok = abs(float(gv) - fv) <= 1e-6 * abs(fv) + float(tol) + 1e-38
                cand = {fv}
            if not ok:
                x, rem = divmod(n, Y * Z * C)
                y, rem = divmod(rem, Z * C)
                z, c = divmod(rem, C)
                viol = {"kind": "voxel-differs-from-mapped-input",
                        "detail": f"{ctx}: voxel (x,y,z,c)=({x},{y},{z},{c}) stored "
                        f"{flat_src[n]!r} maps to {float(val)!r}, expected "
                        f"{sorted(cand)[:3]} but the dataset holds {gv!r}"}
                if known:
                    viol["known"] = known
                v.append(viol)
                if len(v) >= 3:
                    break
    finally:
        shutil.rmtree(top, ignore_errors=True)
    sig = "|".join(str(case[k]) for k in ("layout", "shape", "stored", "target", "encoding",
                                          "storage", "scal", "ignore", "mm", "mmap", "chunk"))
    return {"violations": v, "obs": obs,
            "sigs": [sig] if obs["chunks_read"] > 1 else [],
            "sample": {k: case[k] for k in ("layout", "shape", "stored", "target", "encoding",
                                            "storage", "scal", "ignore", "mm", "mmap",
                                            "info", "chunk")}}


def gates(obs, tier):
    calls = obs.get("calls", {})
    return {
        "conversion_pipeline_reached": calls.get("volume_file_to_precomputed", 0) > 0
        and obs.get("calls_by_module", {}).get("data_types", 0) > 0,
        "all_stored_dtypes": len(obs.get("stored", {})) == len(STORED) + 1,
        "all_target_types": len(obs.get("targets", {})) == len(TARGETS),
        "all_storage_layouts": len(obs.get("storage", {})) == 5,
        "3d_4d_rgb": len(obs.get("layouts", {})) == 3,
        "command_line_runs": obs.get("cli_runs", 0) > 20,
        "mmap_runs": obs.get("mmap", 0) > 20,
        "header_scaling_combined_with_minmax": obs.get("header_scaling_with_minmax", 0) > 5,
        "partial_border_chunks": obs.get("partial_border_chunk", 0) > 20,
        "single_voxel_axes": obs.get("single_voxel_axis", 0) > 5,
        "compressed_segmentation": obs.get("cseg", 0) > 5,
        "exact_results_demanded": obs.get("exact_demanded", 0) > 1000,
        "axes_longer_than_128_voxels": obs.get("long_axis", 0) > 5,
        "chunks_beyond_2_20_voxels": obs.get("huge_chunks", 0) > 0,
        "uint64_labels_above_2_53_kept_as_uint64": obs.get(
            "uint64_labels_above_2_53_kept_as_uint64", 0) >= 4,
    }
