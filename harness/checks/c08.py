"""C08 — generated scale metadata is consistent and usable by every later step.

Monitors: the dict returned by fill_scales_for_dyadic_pyramid and the `info` file written by
generate-scales-info are checked by an arithmetic oracle (integers / Fractions); every scale
is offered to get_encoder; every transition is executed by the REAL
compute_dyadic_downscaling on a virtual reader/writer (chunks synthesised from global voxel
coordinates and verified on write) with sizes shrunk to a few chunks per axis.
"""
import copy
import json
import math
import os
import random
import shutil
import tempfile
from fractions import Fraction

PROPERTY = "C08"
LEVEL = "exploration"
RULE = ("case = (size log-uniform in 1..10^9 per axis, resolution log-uniform in 10^-3..10^9 "
        "nm: isotropic / power-of-two ratios / arbitrary ratios up to 10^5 / integer-rounded / "
        "the 0.8:0.8:1.2 family, target chunk size 1..512, max_scales none or 1..10, dataset "
        "type and encoding through set_info_params; a sample through the generate-scales-info "
        "command line); distinct = (delays, target, max_scales, size exponents); non-trivial "
        "= more than one scale generated")
ASSUMPTIONS = [
    "'coarser axes start later, voxels tend towards isotropy' is held to: an axis with a "
    "coarser voxel never starts downscaling before a finer one; max/min resolution <= "
    "max(initial ratio, 2) at every level and <= 2 once every axis downsamples (a monotone "
    "decrease is NOT demanded: delays are rounded to powers of two)",
    "'usable by the pyramid computation' = the real compute_dyadic_downscaling completes on a "
    "size-reduced copy of each transition (chunk-size sequences do not depend on the size) "
    "and writes the strided data; for targets above 64 only the arithmetic compatibility "
    "predicate is evaluated"]
MANIFEST = {
    "level_text": "Oracle monitoring of the real scale generator over thousands of generated "
    "full-resolution descriptions: the returned dict and the written info file are checked "
    "with exact integer/rational arithmetic (valid JSON, distinct keys, size/resolution "
    "formulas, power-of-two chunk sizes of about the target volume, last scale within two "
    "target chunks, start order and anisotropy bounds), each scale is passed to the real "
    "get_encoder and each transition is executed by the real pyramid code on a virtual "
    "chunk store that verifies every written voxel.  Exploration.",
    "level_note": "Trusted: the arithmetic oracle in this module.  Four recorded mechanisms "
    "are tolerated only under their predicates (three distinct axis delays, excess "
    "anisotropy, target chunk size 1, keys below 1 pm).",
    "technique": "runtime monitoring: arithmetic oracle on generated metadata + execution "
    "of the real downstream pipeline on a self-verifying virtual chunk store",
    "design_ref": "DESIGN.md section 2, C08",
}
REACH = ["fill_scales_for_dyadic_pyramid", "downscale_info", "choose_unit_for_key",
         "compute_dyadic_downscaling", "set_info_params", "generate_scales_info"]
WORKER_TIMEOUT = {"quick": 900, "thorough": 5400}
CASE_TIMEOUT = 300
KF_3DELAYS = "C08-three-distinct-axis-delays"
KF_EXCESS = "C08-excess-anisotropy-assertion"
KF_TARGET1 = "C08-target-chunk-size-1"
KF_SUBPM = "C08-duplicate-keys-below-1pm"


def gen_cases(tier, seed):
    rnd = random.Random(f"C08:{seed}")
    n = 4000 if tier == "quick" else 80000
    cases = []
    for k in range(n):
        size = [max(1, int(10 ** rnd.uniform(0, rnd.choice([2, 4, 9])))) for _ in range(3)]
        base = 10 ** rnd.uniform(-3, 9)
        mode = rnd.random()
        if mode < 0.25:
            res = [base] * 3
        elif mode < 0.5:
            res = [base * 2 ** rnd.randint(0, rnd.choice([1, 2, 6, 17])) for _ in range(3)]
        elif mode < 0.6:
            res = [base * x for x in rnd.choice([[0.8, 0.8, 1.2], [1, 1, 1.5], [1, 1.4, 1.4],
                                                  [1, 1.42, 2.9], [1, 2.9, 2.9], [1, 1, 2.83]])]
            rnd.shuffle(res)
        else:
            res = [base * 10 ** rnd.uniform(0, rnd.choice([0.4, 1, 5])) for _ in range(3)]
        if rnd.random() < 0.3:
            res = [float(max(1, round(x))) for x in res]
        if rnd.random() < 0.1:
            res = [int(max(1, round(x))) for x in res]
        inherit = None
        if rnd.random() < 0.2:
            # the full-resolution file already carries an encoding / type (hand-edited)
            inherit = {"encoding": rnd.choice(["compressed_segmentation", "raw", "jpeg"]),
                       "type": rnd.choice([None, "segmentation", "image"]),
                       "block": rnd.random() < 0.4}
        if rnd.random() < 0.12:
            # sizes just around a power-of-two multiple of the target chunk size
            ax = rnd.randrange(3)
            tt = rnd.choice([16, 64, 64, 128])
            size[ax] = max(1, 2 ** rnd.randint(1, 24) * tt + rnd.choice([-2, -1, 0, 1, 2, 3]))
        prefilled = None
        if rnd.random() < 0.25:
            # a hand-written description (the documented BigBrain example has "key": "full"
            # and "chunk_sizes": []) or the info of an earlier run given again
            prefilled = {"key": rnd.choice(["full", "stale", "1mm", "1um", "20um", ""]),
                         "chunk_sizes": rnd.choice([[], [[7, 7, 7]], [[64, 64, 64]], None])}
        cases.append({"size": size, "resolution": res, "inherit": inherit,
                      "prefilled": prefilled,
                      "target": rnd.choice([1, 2, 4, 8, 16, 32, 64, 64, 64, 128, 256, 512]),
                      "max_scales": rnd.choice([None, None, None, 1, 2, 3, 5, 10]),
                      "type": rnd.choice([None, "image", "segmentation"]),
                      "encoding": rnd.choice([None, "raw", "compressed_segmentation", "jpeg"]),
                      "data_type": rnd.choice(["uint8", "uint16", "uint32", "uint64",
                                               "float32"]),
                      "cli": rnd.random() < (0.08 if tier == "quick" else 0.02)})
    return cases


def _ispow2(n):
    return isinstance(n, int) and n >= 1 and n & (n - 1) == 0


def _delays(res):
    rmin = min(res)
    return [int(round(math.log2(r / rmin))) for r in res]


class _VirtualStore:
    """Chunk reader/writer for one transition.  Reads synthesise the chunk from global voxel
    coordinates; writes are compared with the strided expectation."""

    def __init__(self, np, info, factors):
        self.np = np
        self.info = info
        self.factors = factors
        self.written = set()
        self.bad = None

    def scale_is_lossy(self, key):
        return False

    @staticmethod
    def _val(np, x, y, z):
        return ((x * 7 + y * 13 + z * 29) % 251).astype(np.uint8)

    def read_chunk(self, key, c):
        np = self.np
        zz, yy, xx = np.meshgrid(np.arange(c[4], c[5]), np.arange(c[2], c[3]),
                                 np.arange(c[0], c[1]), indexing="ij")
        return self._val(np, xx, yy, zz)[np.newaxis]

    def write_chunk(self, chunk, key, c):
        np = self.np
        fx, fy, fz = self.factors
        zz, yy, xx = np.meshgrid(np.arange(c[4], c[5]) * fz, np.arange(c[2], c[3]) * fy,
                                 np.arange(c[0], c[1]) * fx, indexing="ij")
        want = self._val(np, xx, yy, zz)[np.newaxis]
        if chunk.shape != want.shape or not np.array_equal(chunk, want):
            self.bad = self.bad or tuple(c)
        self.written.add(tuple(c))


def _virtual_transition(np, info, i):
    """Run the real compute_dyadic_downscaling for transition i on shrunken sizes.
    -> None if fine, else a description of the failure."""
    from neuroglancer_scripts import downscaling, dyadic_pyramid
    old, new = info["scales"][i], info["scales"][i + 1]
    f = [1 if a == b else 2 for a, b in zip(old["size"], new["size"])]
    oc, nc = old["chunk_sizes"][0], new["chunk_sizes"][0]
    osz = []
    for a in range(3):
        bound = 2 * max(oc[a], nc[a] * f[a]) + 1
        osz.append(min(old["size"][a], bound))
    nsz = [-(-s // ff) for s, ff in zip(osz, f)]
    o2, n2 = copy.deepcopy(old), copy.deepcopy(new)
    o2["size"], n2["size"] = osz, nsz
    info2 = {"type": "image", "data_type": "uint8", "num_channels": 1, "scales": [o2, n2]}
    store = _VirtualStore(np, info2, f)
    try:
        dyadic_pyramid.compute_dyadic_downscaling(info2, 0, downscaling.StridingDownscaler(),
                                                  store, store)
    except Exception as exc:  # noqa: BLE001
        return f"{type(exc).__name__}: {str(exc)[:120]}"
    if store.bad is not None:
        return f"wrote wrong voxels in chunk {store.bad}"
    want = {(x, min(x + nc[0], nsz[0]), y, min(y + nc[1], nsz[1]), z, min(z + nc[2], nsz[2]))
            for x in range(0, nsz[0], nc[0]) for y in range(0, nsz[1], nc[1])
            for z in range(0, nsz[2], nc[2])}
    if store.written != want:
        return f"wrote {len(store.written)} chunks, expected {len(want)}"
    return None


def _compatible(old, new, f):
    """Arithmetic reading of 'compatible chunk sizes': along each axis a new chunk is made of
    one or two whole downscaled old chunks."""
    for a in range(3):
        oc, nc = old["chunk_sizes"][0][a], new["chunk_sizes"][0][a]
        if oc % f[a] or oc // f[a] == 0:
            return False
        hc = oc // f[a]
        if nc not in (hc, 2 * hc) and not (new["size"][a] <= nc and new["size"][a] <= 2 * hc):
            return False
    return True


def run_case(case):
    import numpy as np
    from neuroglancer_scripts import chunk_encoding, dyadic_pyramid
    from neuroglancer_scripts.scripts import generate_scales_info as gsi
    size, res, T, ms = case["size"], case["resolution"], case["target"], case["max_scales"]
    info = {"type": "image", "data_type": case["data_type"], "num_channels": 1,
            "scales": [{"size": list(size), "resolution": list(res),
                        "voxel_offset": [0, 0, 0], "encoding": "raw"}]}
    inh = case.get("inherit")
    if inh:
        info["scales"][0]["encoding"] = inh["encoding"]
        if inh["type"]:
            info["type"] = inh["type"]
        else:
            del info["type"]
        if inh["block"] and inh["encoding"] == "compressed_segmentation":
            info["scales"][0]["compressed_segmentation_block_size"] = [4, 4, 4]
    pre = case.get("prefilled")
    if pre:
        info["scales"][0]["key"] = pre["key"]
        if pre["chunk_sizes"] is not None:
            info["scales"][0]["chunk_sizes"] = copy.deepcopy(pre["chunk_sizes"])
    ctx = f"size={size} resolution={res} target={T} max_scales={ms}" + (
        f" inherited={inh}" if inh else "") + (f" prefilled={pre}" if pre else "")
    d = _delays(res)
    texp = int(math.log2(T))
    excess0 = sum(max(d) - x for x in d) > 3 * texp
    obs = {"infos": 0, "scales": 0, "transitions_executed": 0, "transitions_arith_only": 0,
           "generator_assertions": 0, "cli_runs": 0, "distinct_delay_counts": {
               str(len(set(d))): 1}, "max_scales_cut": 0, "encoder_checks": 0,
           "fractional_resolution": int(any(float(r) != int(r) for r in res)),
           "inherited_encoding": int(bool(inh) and case["encoding"] is None),
           "prefilled_key_or_chunk_sizes": int(bool(pre)),
           "near_power_of_two_sizes": int(any(
               s_ > 64 and min((s_ - d) & (s_ - d - 1) for d in (-2, -1, 0, 1, 2, 3)
                               if s_ - d > 0) == 0 for s_ in size))}
    v = []

    def viol(kind, detail, known=None):
        x = {"kind": kind, "detail": f"{ctx}: {detail}"}
        if known:
            x["known"] = known
        v.append(x)

    try:
        gsi.set_info_params(info, dataset_type=case["type"], encoding=case["encoding"])
        full0 = copy.deepcopy(info["scales"][0])
        # the target is an integer: a Python int or a NumPy integer scalar (an element of
        # 2 ** np.arange(...)) - the generated info is the same and stays JSON-serialisable
        T_arg = T
        if case["size"][0] % 4 == 1:
            T_arg = np.int64(T)
            obs["numpy_integer_target"] = 1
        out = dyadic_pyramid.fill_scales_for_dyadic_pyramid(
            info, target_chunk_size=T_arg, max_scales=ms)
    except Exception as exc:  # noqa: BLE001
        # the recorded mechanism is identified by its predicate on the input, not by the
        # class of the exception the generator happens to raise
        obs["generator_assertions"] = int(isinstance(exc, AssertionError))
        viol("generator-raised", f"{type(exc).__name__}: {exc}",
             KF_EXCESS if (excess0 or (T == 1 and len(set(d)) > 1)) else None)
        return {"violations": v, "obs": obs}
    sc = out["scales"]
    if not isinstance(sc, list) or not sc:
        viol("generated-info-has-no-scale", f"scales = {sc!r}")
        return {"violations": v, "obs": obs}
    obs["infos"] = 1
    obs["scales"] = len(sc)
    try:
        rt = json.loads(json.dumps(out))
        if rt != out:
            viol("not-json-roundtrip", "json round trip changes the info (non-JSON types?)")
    except Exception as exc:  # noqa: BLE001
        viol("not-json", f"{type(exc).__name__}: {exc}")
        return {"violations": v, "obs": obs}
    keys = [s.get("key") for s in sc]
    if len(set(keys)) != len(keys):
        dup = [k for k in set(keys) if keys.count(k) > 1][0]
        lv = [i for i, k in enumerate(keys) if k == dup][:2]
        r1, r2 = (min(sc[i]["resolution"]) for i in lv)
        subpm = round(r1 * 1000) == round(r2 * 1000)
        viol("duplicate-scale-keys", f"keys {keys[:8]}", KF_SUBPM if subpm else None)
    # the generated info given to the generator again (a second run with the same options)
    # describes the same pyramid: geometry identical, keys still pairwise distinct
    if not v:
        try:
            again = dyadic_pyramid.fill_scales_for_dyadic_pyramid(
                copy.deepcopy(out), target_chunk_size=T, max_scales=ms)
            obs["regenerated_from_own_output"] = 1
            geo = [(s["size"], s["resolution"], s["chunk_sizes"]) for s in sc]
            geo2 = [(s["size"], s["resolution"], s["chunk_sizes"]) for s in again["scales"]]
            k2 = [s.get("key") for s in again["scales"]]
            if geo2 != geo:
                viol("regeneration-from-own-output-differs",
                     f"{len(geo2)} scales, first difference at level "
                     f"{next((i for i, (a, b) in enumerate(zip(geo, geo2)) if a != b), min(len(geo), len(geo2)))}")
            elif len(set(k2)) != len(k2):
                viol("duplicate-scale-keys", f"after regeneration from own output: {k2[:8]}")
        except Exception as exc:  # noqa: BLE001
            viol("regeneration-from-own-output-raised", f"{type(exc).__name__}: {exc}")
        # ... and a second run over the generated info asking for ANOTHER encoding (the
        # documented way to derive e.g. a JPEG pyramid description from a raw one): every
        # scale of the result carries the requested encoding, as in a first run
        if not v and case["size"][2] % 2 == 0:
            other = [e for e in ("raw", "jpeg", "compressed_segmentation")
                     if e != sc[0].get("encoding")][case["size"][0] % 2]
            try:
                re_in = copy.deepcopy(out)
                gsi.set_info_params(re_in, encoding=other)
                re_out = dyadic_pyramid.fill_scales_for_dyadic_pyramid(
                    re_in, target_chunk_size=T, max_scales=ms)
                obs["regenerated_with_another_encoding"] = 1
                encs = [s_.get("encoding") for s_ in re_out["scales"]]
                if any(e != other for e in encs):
                    viol("regeneration-with-another-encoding-keeps-old-encodings",
                         f"asked for {other} over a generated {sc[0].get('encoding')} "
                         f"pyramid: encodings {encs[:8]}")
                elif other == "compressed_segmentation" and any(
                        "compressed_segmentation_block_size" not in s_
                        for s_ in re_out["scales"]):
                    viol("regeneration-with-another-encoding-keeps-old-encodings",
                         "compressed_segmentation scales without a block size")
                elif [(s_["size"], s_["resolution"], s_["chunk_sizes"])
                      for s_ in re_out["scales"]] != [
                        (s_["size"], s_["resolution"], s_["chunk_sizes"]) for s_ in sc]:
                    viol("regeneration-from-own-output-differs",
                         f"geometry changed when asking for encoding {other}")
            except Exception as exc:  # noqa: BLE001
                viol("regeneration-from-own-output-raised",
                     f"encoding {other}: {type(exc).__name__}: {exc}")
        # ... and an input that lists several scales in another order: "only the first one
        # will be used" (documented), whichever is the finest
        if not v and len(sc) >= 2 and case["size"][1] % 3 == 0:
            try:
                rev = copy.deepcopy(out)
                rev["scales"].reverse()
                first = copy.deepcopy(rev["scales"][0])
                alone = copy.deepcopy(out)
                alone["scales"] = [first]
                want_geo = [(s["size"], s["resolution"], s["chunk_sizes"]) for s in
                            dyadic_pyramid.fill_scales_for_dyadic_pyramid(
                                alone, target_chunk_size=T, max_scales=ms)["scales"]]
                got_geo = [(s["size"], s["resolution"], s["chunk_sizes"]) for s in
                           dyadic_pyramid.fill_scales_for_dyadic_pyramid(
                               rev, target_chunk_size=T, max_scales=ms)["scales"]]
                obs["multi_scale_inputs_not_finest_first"] = 1
                if got_geo != want_geo:
                    viol("pyramid-not-built-from-the-first-scale-of-the-input",
                         f"input scales listed coarsest first: pyramid starts at size "
                         f"{got_geo[0][0] if got_geo else None}, the first input scale has "
                         f"{first['size']}")
            except AssertionError:
                pass        # recorded mechanisms of the generator (excess anisotropy)
            except Exception as exc:  # noqa: BLE001
                viol("generator-raised", f"multi-scale input: {type(exc).__name__}: {exc}")
    # level 0
    s0 = sc[0]
    if s0["size"] != list(size) or [Fraction(x) for x in s0["resolution"]] != \
            [Fraction(x) for x in res] or s0.get("encoding") != full0.get("encoding") \
            or s0.get("voxel_offset") != [0, 0, 0]:
        viol("level-0-differs-from-input", f"{s0}")
    started = [None] * 3
    prevf = None
    ok = True
    for L, s in enumerate(sc):
        f = []
        for a in range(3):
            q = Fraction(s["resolution"][a]) / Fraction(res[a])
            if q.denominator != 1 or not _ispow2(q.numerator):
                viol("factor-not-a-power-of-two", f"level {L} axis {a}: {q}")
                ok = False
                break
            f.append(q.numerator)
            if q.numerator > 1 and started[a] is None:
                started[a] = L
        if not ok:
            break
        if s["size"] != [-(-size[a] // f[a]) for a in range(3)]:
            viol("size-formula", f"level {L}: size {s['size']} for factors {f}")
        cs = s.get("chunk_sizes")
        if not cs or len(cs) != 1 or len(cs[0]) != 3 or not all(_ispow2(c) for c in cs[0]):
            viol("chunk-size-not-power-of-two", f"level {L}: {cs}")
            ok = False
            break
        if abs(sum(int(math.log2(c)) for c in cs[0]) - 3 * texp) > 1:
            viol("chunk-voxel-count-far-from-target", f"level {L}: {cs[0]} for target {T}")
        if prevf is not None:
            if any(f[a] % prevf[a] or f[a] // prevf[a] not in (1, 2) for a in range(3)):
                viol("consecutive-factor-not-1-or-2", f"level {L}: {prevf} -> {f}")
            if f == prevf:
                viol("no-progress-between-levels", f"level {L}: {f}")
        prevf = f
        ratio = Fraction(max(s["resolution"])) / Fraction(min(s["resolution"]))
        init = Fraction(max(res)) / Fraction(min(res))
        if ratio > max(init, 2):
            viol("anisotropy-worse-than-input", f"level {L}: ratio {float(ratio):.4g}, "
                 f"initial {float(init):.4g}")
        if all(x > 1 for x in f) and ratio > 2:
            viol("anisotropy-above-2-after-all-axes-started",
                 f"level {L}: ratio {float(ratio):.4g}")
        try:
            chunk_encoding.get_encoder(out, s)
            obs["encoder_checks"] += 1
        except Exception as exc:  # noqa: BLE001
            bad_combo = (s.get("encoding") == "jpeg" and out["data_type"] != "uint8") or (
                s.get("encoding") == "compressed_segmentation"
                and out["data_type"] not in ("uint32", "uint64"))
            if not bad_combo:
                viol("encoder-rejects-generated-scale", f"level {L}: {type(exc).__name__}: "
                     f"{exc}")
    if not ok:
        return {"violations": v[:6], "obs": obs}
    for a in range(3):
        for b in range(3):
            if Fraction(res[a]) < Fraction(res[b]) and started[a] is not None \
                    and started[b] is not None and started[a] > started[b]:
                viol("coarser-axis-starts-before-finer",
                     f"axis {b} (res {res[b]}) starts at level {started[b]}, axis {a} "
                     f"(res {res[a]}) at {started[a]}")
    if ms is not None and len(sc) > ms:
        viol("more-scales-than-the-requested-limit", f"{len(sc)} scales for max_scales={ms}")
    cut = ms is not None and len(sc) >= ms
    obs["max_scales_cut"] = int(cut)
    if not cut and any(x > 2 * T for x in sc[-1]["size"]):
        viol("last-scale-larger-than-two-target-chunks",
             f"last size {sc[-1]['size']} after {len(sc)} scales")
    # ---- usable by the pyramid computation
    for i in range(len(sc) - 1):
        old, new = sc[i], sc[i + 1]
        f = [1 if a == b else 2 for a, b in zip(old["size"], new["size"])]
        comp = _compatible(old, new, f)
        known = None
        if T == 1:
            known = KF_TARGET1
        elif len(set(d)) == 3:
            known = KF_3DELAYS
        elif excess0:
            known = KF_EXCESS
        if T <= 64:
            obs["transitions_executed"] += 1
            err = _virtual_transition(np, out, i)
            if err:
                # the recorded mechanisms are about transitions that are REFUSED (an
                # exception); data written wrongly is never covered by them
                refused = not err.startswith("wrote ")
                viol("pyramid-computation-refuses-generated-scales" if refused
                     else "pyramid-computation-writes-wrong-data-for-generated-scales",
                     f"transition {old['key']}({old['chunk_sizes'][0]}) -> "
                     f"{new['key']}({new['chunk_sizes'][0]}) factors {f}: {err}",
                     known if refused else None)
                break
            if not comp:
                # the real code assembled the (size-reduced) transition correctly although
                # the arithmetic predicate calls the chunk sizes incompatible: the executed
                # run decides; the disagreement is only counted
                obs["real_run_accepts_what_predicate_rejects"] = obs.get(
                    "real_run_accepts_what_predicate_rejects", 0) + 1
        else:
            obs["transitions_arith_only"] += 1
            if not comp:
                viol("incompatible-chunk-sizes-between-scales",
                     f"transition {old['key']}({old['chunk_sizes'][0]}) -> "
                     f"{new['key']}({new['chunk_sizes'][0]}) factors {f}", known)
                break
    # ---- the command-line tool writes the same info
    if case["cli"] and not v:
        top = tempfile.mkdtemp(prefix="c08-")
        try:
            src = os.path.join(top, "info_fullres.json")
            base = {"type": "image", "data_type": case["data_type"], "num_channels": 1,
                    "scales": [{"size": list(size), "resolution": list(res),
                                "voxel_offset": [0, 0, 0], "encoding": "raw"}]}
            if inh:
                base["scales"][0]["encoding"] = inh["encoding"]
                if inh["type"]:
                    base["type"] = inh["type"]
                else:
                    del base["type"]
                if inh["block"] and inh["encoding"] == "compressed_segmentation":
                    base["scales"][0]["compressed_segmentation_block_size"] = [4, 4, 4]
            with open(src, "w") as fh:
                json.dump(base, fh)
            argv = ["generate-scales-info", src, os.path.join(top, "out"),
                    "--target-chunk-size", str(T)]
            if ms:
                argv += ["--max-scales", str(ms)]
            if case["type"]:
                argv += ["--type", case["type"]]
            if case["encoding"]:
                argv += ["--encoding", case["encoding"]]
            rc = gsi.main(argv)
            obs["cli_runs"] = 1
            with open(os.path.join(top, "out", "info")) as fh:
                written = json.load(fh)
            if rc not in (0, None) or written != json.loads(json.dumps(out)):
                viol("cli-info-differs-from-library", f"exit {rc}; scales "
                     f"{[s['key'] for s in written.get('scales', [])]} vs {keys}")
        except Exception as exc:  # noqa: BLE001
            enc_ = out["scales"][0].get("encoding")
            bad_combo = (enc_ == "jpeg" and out["data_type"] != "uint8") or (
                enc_ == "compressed_segmentation"
                and out["data_type"] not in ("uint32", "uint64"))
            if not (bad_combo and type(exc).__name__ == "InvalidInfoError"):
                viol("cli-raised", f"{type(exc).__name__}: {exc}")
        finally:
            shutil.rmtree(top, ignore_errors=True)
    sig = f"{d}|{T}|{ms}|{[int(math.log2(s)) for s in size]}"
    return {"violations": v[:6], "obs": obs, "sigs": [sig] if len(sc) > 1 else [],
            "sample": {"size": size, "resolution": res, "target": T, "max_scales": ms,
                       "keys": keys[:6], "chunk_sizes": [s["chunk_sizes"][0] for s in sc[:6]]}}


def gates(obs, tier):
    calls = obs.get("calls", {})
    return {
        "generator_reached": calls.get("fill_scales_for_dyadic_pyramid", 0) > 0,
        "real_pyramid_code_executed": obs.get("transitions_executed", 0) > 1000
        and calls.get("compute_dyadic_downscaling", 0) > 1000,
        "cli_runs": obs.get("cli_runs", 0) > 20,
        "max_scales_cuts_seen": obs.get("max_scales_cut", 0) > 50,
        "regenerated_with_another_encoding": obs.get(
            "regenerated_with_another_encoding", 0) > 50,
        "one_two_three_distinct_delays": len(obs.get("distinct_delay_counts", {})) == 3,
        "fractional_resolutions": obs.get("fractional_resolution", 0) > 100,
        "encoder_checks": obs.get("encoder_checks", 0) > 1000,
        "inherited_encodings": obs.get("inherited_encoding", 0) > 50,
        "multi_scale_inputs_not_finest_first": obs.get(
            "multi_scale_inputs_not_finest_first", 0) > 50,
        "numpy_integer_targets": obs.get("numpy_integer_target", 0) > 100,
        "prefilled_full_resolution_scales": obs.get("prefilled_key_or_chunk_sizes", 0) > 100,
        "regenerated_from_own_output": obs.get("regenerated_from_own_output", 0) > 100,
        "sizes_next_to_powers_of_two": obs.get("near_power_of_two_sizes", 0) > 50,
    }
