"""C12 — file storage returns the latest stored bytes under every layout option.

Monitor: model-based history checking at the Accessor boundary (dict name -> bytes), an
on-disk audit after every step (documented chunk path, .gz suffix rule, strict gzip stream),
cross-configuration reads, and a confinement monitor (I/O interposition records every
file-system call made while a name that resolves outside the dataset directory is offered).
"""
import gzip
import os
import random
import shutil
import tempfile
import urllib.parse

from harness.monitors import iohook

PROPERTY = "C12"
LEVEL = "exploration"
RULE = ("case = history of 30-80 store/fetch/exists operations on a small pool of file names "
        "(nested, with colons, dots) and chunk positions under one configuration (flat|deep x "
        "gzip on/off x level 0/1/6/9, or the sharded file accessor's file operations), byte "
        "contents incl. empty, MIME types incl. the gzip-exempt ones, overwrite flags; after "
        "the history every name is read through all 8 other configurations; plus escaping "
        "path spellings.  distinct = history seed/config; non-trivial = a name was stored "
        "at least twice or an overwrite was refused")
ASSUMPTIONS = [
    "a name keeps one MIME type for the whole history",
    "documented layout: chunks at key/x0-x1/y0-y1/z0-z1 (deep) or key/x0-x1_y0-y1_z0-z1 "
    "(flat); '.gz' suffix exactly when gzip is on and the MIME type is not one of "
    "application/json, image/jpeg, image/png",
    "'without touching the file system' is monitored as: no file-system call on any path "
    "outside the dataset directory, sentinel file next to the dataset unchanged, no new "
    "directory entries in the parent"]
MANIFEST = {
    "level_text": "Model-based history monitoring of the real FileAccessor (and of the "
    "sharded accessor's file operations): after every operation the observable result "
    "(bytes / bool / exception) is compared with a dictionary model and the directory tree "
    "is audited against the documented layout (path pattern, .gz rule, strict gzip "
    "decoding); datasets written under one configuration are re-read under all others; "
    "names resolving outside the dataset must raise while an I/O interposition layer "
    "proves that nothing outside the dataset directory was touched.  Exploration.",
    "level_note": "Trusted: the dictionary model and the path rules quoted from the "
    "documentation (docs/serving-data.rst, accessor docstrings).",
    "technique": "runtime monitoring: operation history vs executable model, on-disk layout "
    "audit at every step, I/O-call interposition for path confinement",
    "design_ref": "DESIGN.md section 2, C12",
}
REACH = ["FileAccessor.store_file", "FileAccessor.fetch_file", "FileAccessor.file_exists",
         "FileAccessor.store_chunk", "FileAccessor.fetch_chunk",
         "ShardedFileAccessor.store_file", "ShardedFileAccessor.fetch_file",
         "ShardedFileAccessor.file_exists"]
WORKER_TIMEOUT = {"quick": 900, "thorough": 5400}
CASE_TIMEOUT = 120
NO_GZ = {"application/json", "image/jpeg", "image/png"}
MIMES = ["application/octet-stream", "application/octet-stream", "application/json",
         "image/jpeg", "image/png", "text/plain"]
NAMES = ["info", "a", "dir/b", "mesh/1:0", "mesh/frag.one", "x.json", "deep/er/name",
         "..dots", "a..b", "sp ace", "transform.json", "dir/c:d:e", "UPPER", "dir/sub/./q",
         "m\u00fcsh/\u00fc\u00df.json", "pct/a%20b%2F", "dir/~tilde", "semi;colon&amp",
         "x" * 180, "labels.tsv.gz", "mesh/lh.surf.gz"]
CONFIGS = [{"flat": f, "gzip": g, "compresslevel": lv}
           for f in (False, True) for g in (False, True) for lv in (1, 9)]


def worker_init():
    # environment variables that tools commonly honour are set (reproducible-build time
    # stamp, a non-default locale): the guarantees do not depend on them
    import os
    os.environ.setdefault("SOURCE_DATE_EPOCH", "1700000000")
    os.environ.setdefault("LC_ALL", "C")


def gen_cases(tier, seed):
    rnd = random.Random(f"C12:{seed}")
    n = 1500 if tier == "quick" else 40000
    cases = []
    for k in range(n):
        kind = "file" if rnd.random() < 0.8 else "sharded"
        cases.append({"kind": kind, "hseed": rnd.randrange(2 ** 32),
                      "cfg": {"flat": rnd.random() < 0.5, "gzip": rnd.random() < 0.6,
                              "compresslevel": rnd.choice([0, 1, 6, 9])},
                      "nops": rnd.randint(30, 80)})
    return cases


def _payload(rnd):
    r = rnd.random()
    if r < 0.12:
        return b""
    if r < 0.135:
        # beyond the usual buffer sizes (64 KiB, 1 MiB)
        n = rnd.choice([65535, 65536, 65537, 200000, 1048577, 1500000])
        return (rnd.randbytes(251) * (n // 251 + 1))[:n]
    if r < 0.2:
        # contents that look like (or are) compressed streams themselves
        body = rnd.randbytes(rnd.randint(0, 60))
        return rnd.choice([gzip.compress(body), b"\x1f\x8b" + body, b"\x1f\x8b",
                           b"\x1f\x8b\x08\x00" + body, b"\x78\x9c" + body,
                           b"PK\x03\x04" + body])
    if r < 0.3:
        return b'{"k":' + str(rnd.randrange(10 ** 6)).encode() + b"}"
    if r < 0.4:
        return bytes(rnd.randrange(256) for _ in range(rnd.randint(1, 8))) * rnd.randint(1, 400)
    return rnd.randbytes(rnd.randint(1, 300))


def _chunk_rel(cfg, key, c):
    if cfg["flat"]:
        return f"{key}/{c[0]}-{c[1]}_{c[2]}-{c[3]}_{c[4]}-{c[5]}"
    return f"{key}/{c[0]}-{c[1]}/{c[2]}-{c[3]}/{c[4]}-{c[5]}"


def _audit(base, cfg, files, chunks, mimes):
    """On-disk audit: every name of the model is at its documented path with the documented
    suffix and content; nothing else is in the tree.  -> list of problems"""
    problems = []
    expected = {}
    for name, data in files.items():
        gz = cfg["gzip"] and mimes[("f", name)] not in NO_GZ
        rel = os.path.normpath(name) + (".gz" if gz else "")
        expected[rel] = (data, gz)
    for (key, c), data in chunks.items():
        gz = cfg["gzip"] and mimes[("c", key, c)] not in NO_GZ
        expected[_chunk_rel(cfg, key, c) + (".gz" if gz else "")] = (data, gz)
    found = set()
    for root, _d, fs in os.walk(base):
        for f in fs:
            found.add(os.path.relpath(os.path.join(root, f), base))
    for rel, (data, gz) in expected.items():
        if rel not in found:
            problems.append(f"{rel!r} is missing on disk (tree: {sorted(found)[:8]})")
            continue
        with open(os.path.join(base, rel), "rb") as f:
            raw = f.read()
        if gz:
            try:
                got = gzip.decompress(raw)
            except Exception as exc:  # noqa: BLE001
                problems.append(f"{rel!r} is not a valid gzip stream: {exc}")
                continue
        else:
            got = raw
        if got != data:
            problems.append(f"{rel!r} holds {len(got)} bytes that differ from the "
                            f"{len(data)} bytes stored last")
    for rel in sorted(found - set(expected)):
        problems.append(f"unexpected file {rel!r} in the dataset directory")
    return problems


def run_case(case):
    from neuroglancer_scripts import accessor as accessor_mod
    from neuroglancer_scripts import file_accessor, sharded_file_accessor
    from neuroglancer_scripts.accessor import DataAccessError
    rnd = random.Random(case["hseed"])
    top = None
    if case["hseed"] % 6 == 0:
        # the dataset lives on another file system than TMPDIR
        from harness import shardlib
        top = shardlib.other_filesystem_dir("c12-")
    on_other_fs = top is not None
    top = top or tempfile.mkdtemp(prefix="c12-")
    # the dataset directory itself is spelled in several legal ways (spaces, non-ASCII,
    # a literal percent sign) so that the URL forms below have something to decode
    base = os.path.join(top, rnd.choice(["dataset", "dataset", "data set", "d\u00e4ta-\u8133",
                                         "a%41b", "x+y=z", "atlas;v2", "a,b&c", "it's(1)@h"]))
    r_ = rnd.random()
    if r_ < 0.2:
        # the dataset directory is reached through a symbolic link
        real = os.path.join(top, "real-location")
        os.mkdir(real)
        os.symlink(real, base)
    elif r_ < 0.3:
        # ... or spelled with ".." after a symbolic link to a directory elsewhere: the
        # operating system follows the link first ($SCRATCH/../shared/ds)
        os.makedirs(os.path.join(top, "store", "area"))
        os.symlink(os.path.join(top, "store", "area"), os.path.join(top, "link"))
        base = os.path.join(top, "link", "..", os.path.basename(base))
        os.mkdir(base)
    else:
        os.mkdir(base)
    sentinel = os.path.join(top, "secret")
    with open(sentinel, "wb") as f:
        f.write(b"SENTINEL")
    cfg = case["cfg"]
    kind = case["kind"]
    obs = {"histories": 1, "ops": {}, "audits": 0, "overwrite_refusals": 0,
           "payloads_over_64KiB": 0, "symlinked_dataset_directory": int(os.path.islink(base)),
           "datasets_on_another_file_system_than_TMPDIR": int(on_other_fs),
           "dataset_spelled_with_dotdot_after_a_symlink": int(os.sep + ".." + os.sep in base),
           "cross_config_reads": 0, "escape_attempts": 0, "escape_refused": 0,
           "kinds": {kind: 1}, "fs_calls_seen_during_escapes": 0, "gz_files_audited": 0,
           "configs": {f"{kind}:{int(cfg['flat'])}{int(cfg['gzip'])}": 1}}
    v = []
    ctx = f"{kind} cfg={cfg}" if kind == "file" else "sharded-accessor file ops"
    try:
        if kind == "file":
            # the accessor is obtained the way the scripts obtain it (URL/path + option
            # dictionary) in half of the histories, directly from the class otherwise
            how = rnd.choice(["class", "path+options", "file-url+options", "path+argv"])
            obs["writer_opened_via"] = {how: 1}
            if how == "class":
                acc = file_accessor.FileAccessor(base, **cfg)
            elif how == "path+argv":
                # ... or from command-line arguments in their documented spellings, parsed
                # by the option group every script installs
                import argparse
                argv = ["--compresslevel", str(cfg["compresslevel"])]
                if not cfg["gzip"]:
                    spelling = rnd.choice(["--no-gzip", "--no-compression"])
                    obs["no_gzip_spellings"] = {spelling: 1}
                    argv.insert(rnd.randrange(2) * 2, spelling)
                if cfg["flat"]:
                    argv.append("--flat")
                parser = argparse.ArgumentParser()
                accessor_mod.add_argparse_options(parser)
                acc = accessor_mod.get_accessor_for_url(base, vars(parser.parse_args(argv)))
                ctx += f" argv={argv}"
                if not isinstance(acc, file_accessor.FileAccessor):
                    return {"violations": [{"kind": "dispatch-not-a-file-accessor",
                                            "detail": f"{how} {argv}: {type(acc).__name__}"}],
                            "obs": obs}
            else:
                acc = accessor_mod.get_accessor_for_url(
                    base if how == "path+options" else "file://" + urllib.parse.quote(base),
                    dict(cfg))
                if not isinstance(acc, file_accessor.FileAccessor):
                    return {"violations": [{"kind": "dispatch-not-a-file-accessor",
                                            "detail": f"{how} {cfg}: {type(acc).__name__}"}],
                            "obs": obs}
            audit_cfg = cfg
        else:
            acc = sharded_file_accessor.ShardedFileAccessor(base)
            audit_cfg = {"flat": True, "gzip": False}
        files, chunks, mimes = {}, {}, {}
        names = rnd.sample(NAMES, rnd.randint(3, 7))
        coords = [(0, 4, 0, 4, 0, 4), (4, 8, 0, 4, 0, 4), (0, 4, 4, 7, 0, 4), (64, 128, 0, 64, 64, 100)]
        keys = ["s0", "8nm"]
        stored_twice = False
        log = []

        def fail(kind_, msg):
            v.append({"kind": kind_, "detail": f"{ctx}: step {len(log)} {log[-1]}: {msg}; "
                      f"history tail {log[-4:-1]}"})

        for step in range(case["nops"]):
            r = rnd.random()
            is_chunk = kind == "file" and rnd.random() < 0.4
            if is_chunk:
                key, c = rnd.choice(keys), rnd.choice(coords)
                mk = ("c", key, c)
                ident = (key, c)
                store = chunks
            else:
                name = rnd.choice(names)
                ident = os.path.normpath(name)
                mk = ("f", ident)
                store = files
            mimes.setdefault(mk, rnd.choice(MIMES))
            mime = mimes[mk]
            if r < 0.45:
                data = _payload(rnd)
                if not is_chunk and ident == "info":
                    # the URL dispatch parses this file: keep it a JSON object
                    data = b'{"k":' + str(rnd.randrange(10 ** 6)).encode() + b"}"
                ow = rnd.random() < 0.5
                obs["payloads_over_64KiB"] += int(len(data) > 65536)
                op = ("store_chunk" if is_chunk else "store_file")
                log.append((op, ident, len(data), mime, f"overwrite={ow}"))
                obs["ops"][op] = obs["ops"].get(op, 0) + 1
                try:
                    if is_chunk:
                        acc.store_chunk(data, key, c, mime_type=mime, overwrite=ow)
                    else:
                        acc.store_file(name, data, mime_type=mime, overwrite=ow)
                    raised = None
                except (DataAccessError, OSError) as exc:
                    raised = exc
                except Exception as exc:  # noqa: BLE001
                    fail("store-raised-unexpected-exception", f"{type(exc).__name__}: {exc}")
                    break
                exists = ident in store
                if exists and not ow:
                    if raised is None:
                        fail("overwrite-without-permission",
                             "store with overwrite=False on an existing name succeeded")
                        break
                    obs["overwrite_refusals"] += 1
                    if kind == "file" and not isinstance(raised, DataAccessError):
                        fail("wrong-error-class", f"{type(raised).__name__}")
                        break
                else:
                    if raised is not None:
                        fail("valid-store-raised", f"{type(raised).__name__}: {raised}")
                        break
                    if exists:
                        stored_twice = True
                    store[ident] = data
            elif r < 0.8:
                op = ("fetch_chunk" if is_chunk else "fetch_file")
                log.append((op, ident))
                obs["ops"][op] = obs["ops"].get(op, 0) + 1
                try:
                    got = acc.fetch_chunk(key, c) if is_chunk else acc.fetch_file(name)
                    raised = None
                except (DataAccessError, OSError) as exc:
                    raised = exc
                except Exception as exc:  # noqa: BLE001
                    fail("fetch-raised-unexpected-exception", f"{type(exc).__name__}: {exc}")
                    break
                if ident in store:
                    if raised is not None:
                        fail("stored-name-cannot-be-fetched",
                             f"{type(raised).__name__}: {raised}")
                        break
                    if bytes(got) != store[ident]:
                        fail("fetch-returns-stale-or-wrong-bytes",
                             f"got {len(got)} bytes, last stored {len(store[ident])} bytes")
                        break
                elif raised is None:
                    fail("fetch-of-unknown-name-returned-data", f"{len(got)} bytes")
                    break
            elif not is_chunk:
                log.append(("file_exists", ident))
                obs["ops"]["file_exists"] = obs["ops"].get("file_exists", 0) + 1
                try:
                    got = acc.file_exists(name)
                except Exception as exc:  # noqa: BLE001
                    fail("file_exists-raised", f"{type(exc).__name__}: {exc}")
                    break
                if bool(got) != (ident in files):
                    fail("file_exists-wrong", f"returned {got}, model says {ident in files}")
                    break
            else:
                continue
            problems = _audit(base, audit_cfg, files, chunks, mimes)
            obs["audits"] += 1
            if problems:
                fail("on-disk-layout-differs-from-documentation", "; ".join(problems[:3]))
                break
        obs["gz_files_audited"] = sum(
            1 for k_, m in mimes.items() if audit_cfg["gzip"] and m not in NO_GZ)
        # ---- a gzip-stored FILE that shares its name with a DIRECTORY of the dataset (a
        # table "s0" next to the chunks of scale "s0", "labels" next to "labels/v1"): it
        # lives as NAME.gz beside the directory NAME and is fetched like any other file
        if not v and kind == "file" and cfg["gzip"] and case["hseed"] % 3 == 0:
            try:
                cm = mimes.setdefault(("c", "s0", coords[0]), "application/octet-stream")
                acc.store_chunk(b"\x07" * 64, "s0", coords[0], mime_type=cm, overwrite=True)
                chunks[("s0", coords[0])] = b"\x07" * 64
                twin = b"name,label\n" + _payload(rnd)[:300]
                acc.store_file("s0", twin, mime_type="application/octet-stream",
                               overwrite=True)
                files["s0"] = twin
                mimes[("f", "s0")] = "application/octet-stream"
                obs["gzip_files_named_like_a_directory"] = 1
                got = acc.fetch_file("s0")
                if got != twin or acc.file_exists("s0") is not True:
                    v.append({"kind": "fetch-differs-from-last-store",
                              "detail": f"{ctx}: file 's0' stored (gzip) next to the chunk "
                              f"directory 's0': fetched {len(got)} bytes, stored {len(twin)}"})
            except Exception as exc:  # noqa: BLE001
                v.append({"kind": "fetch-differs-from-last-store",
                          "detail": f"{ctx}: file 's0' stored (gzip) next to the chunk "
                          f"directory 's0': {type(exc).__name__}: {str(exc)[:120]}"})
        # ---- cross-configuration reads
        if not v and kind == "file":
            for other in CONFIGS:
                for via in ("class", "url", "file-url", "precomputed-file-url"):
                    file_url = "file://" + urllib.parse.quote(base)
                    acc2 = (file_accessor.FileAccessor(base, **other) if via == "class"
                            else accessor_mod.get_accessor_for_url(
                                {"url": base, "file-url": file_url,
                                 "precomputed-file-url": "precomputed://" + file_url}[via],
                                other))
                    obs["opened_via"] = obs.get("opened_via") or {}
                    obs["opened_via"][via] = obs["opened_via"].get(via, 0) + 1
                    if not isinstance(acc2, file_accessor.FileAccessor):
                        continue   # an 'info' payload may look sharded; not this property
                    for name, data in files.items():
                        obs["cross_config_reads"] += 1
                        try:
                            got = acc2.fetch_file(name)
                            ex = acc2.file_exists(name)
                        except Exception as exc:  # noqa: BLE001
                            got, ex = exc, None
                        if got != data or ex is not True:
                            v.append({"kind": "cross-configuration-read-differs",
                                      "detail": f"written with {cfg}, read with {other} "
                                      f"({via}): file {name!r} -> "
                                      f"{type(got).__name__ if not isinstance(got, bytes) else len(got)}"
                                      f", exists={ex}"})
                            break
                    for (key, c), data in chunks.items():
                        obs["cross_config_reads"] += 1
                        try:
                            got = acc2.fetch_chunk(key, c)
                        except Exception as exc:  # noqa: BLE001
                            got = exc
                        if got != data:
                            v.append({"kind": "cross-configuration-read-differs",
                                      "detail": f"written with {cfg}, read with {other} "
                                      f"({via}): chunk {key} {c}"})
                            break
                    if v:
                        break
                if v:
                    break
        # ---- confinement
        if not v:
            bname = os.path.basename(base)
            # a sibling directory whose path has the dataset path as a string prefix
            sibling = base + "_backup"
            os.makedirs(sibling, exist_ok=True)
            with open(os.path.join(sibling, "info"), "wb") as f:
                f.write(b"SIBLING")
            escapes = ["../secret", "a/../../secret", "../" + bname + "/../secret",
                       sentinel, "/etc/hostname", "dir/../../secret", "..",
                       "../newfile", "a/b/../../../newdir/x", "./../secret",
                       os.path.join(sibling, "info"), os.path.join(sibling, "new"),
                       base + "x/y", "../" + bname + "_backup/info"]
            before_parent = sorted(os.listdir(top))
            for esc in escapes:
                for op in ("fetch_file", "store_file", "store_file_ow", "file_exists"):
                    obs["escape_attempts"] += 1
                    hook = iohook.Hook([base])
                    hook.log_outside = True
                    res = None
                    with hook:
                        try:
                            if op == "fetch_file":
                                res = ("returned", acc.fetch_file(esc))
                            elif op == "store_file":
                                acc.store_file(esc, b"PWNED", mime_type="application/json")
                                res = ("returned", None)
                            elif op == "store_file_ow":
                                acc.store_file(esc, b"PWNED", overwrite=True)
                                res = ("returned", None)
                            else:
                                res = ("returned", acc.file_exists(esc))
                        except Exception as exc:  # noqa: BLE001
                            res = ("raised", type(exc).__name__)
                    obs["fs_calls_seen_during_escapes"] += len(hook.events)
                    outside = [p for p in hook.outside if not p.startswith("/venv")
                               and "/site-packages/" not in p and not p.startswith("/root/.pyenv")]
                    with open(sentinel, "rb") as f:
                        sent = f.read()
                    with open(os.path.join(sibling, "info"), "rb") as f:
                        sib = f.read()
                    if res[0] != "raised" or outside or sent != b"SENTINEL" \
                            or sib != b"SIBLING" or sorted(os.listdir(sibling)) != ["info"] \
                            or sorted(os.listdir(top)) != before_parent:
                        v.append({"kind": "path-escapes-dataset-directory",
                                  "detail": f"{ctx}: {op}({esc!r}) -> {res[0]} "
                                  f"{res[1] if res[0] == 'raised' else ''}; file-system calls "
                                  f"outside the dataset: {outside[:3]}; sentinel intact: "
                                  f"{sent == b'SENTINEL'}; parent entries: "
                                  f"{sorted(os.listdir(top))}"})
                        break
                    obs["escape_refused"] += 1
                if v:
                    break
    finally:
        shutil.rmtree(top, ignore_errors=True)
    nontrivial = stored_twice or obs["overwrite_refusals"] > 0
    return {"violations": v[:5], "obs": obs,
            "sigs": [f"{kind}|{cfg}|{case['hseed']}"] if nontrivial else [],
            "sample": {"kind": kind, "cfg": cfg, "ops": case["nops"],
                       "history_head": [list(map(str, x)) for x in log[:5]]}}


def gates(obs, tier):
    calls = obs.get("calls", {})
    return {
        "file_accessor_methods_reached": all(calls.get(k, 0) > 0 for k in REACH[:5]),
        "sharded_file_ops_reached": all(calls.get(k, 0) > 0 for k in REACH[5:]),
        "all_layout_combinations": len([k for k in obs.get("configs", {})
                                        if k.startswith("file:")]) == 4,
        "audits_run": obs.get("audits", 0) > 5000,
        "overwrite_refusals_seen": obs.get("overwrite_refusals", 0) > 200,
        "cross_config_reads": obs.get("cross_config_reads", 0) > 5000,
        "escape_attempts_refused": obs.get("escape_refused", 0) > 1000,
        "gz_files_audited": obs.get("gz_files_audited", 0) > 100,
        "payloads_beyond_64KiB": obs.get("payloads_over_64KiB", 0) > 20,
        "gzip_files_named_like_a_directory": obs.get(
            "gzip_files_named_like_a_directory", 0) > 20,
        "both_command_line_spellings_of_no_gzip": all(
            obs.get("no_gzip_spellings", {}).get(k, 0) > 3
            for k in ("--no-gzip", "--no-compression")),
    }
