"""C05 — sharded storage returns what was stored, whatever the order of writes.

Monitors: boundary tracer on store_chunk (what was stored, in which order); after close(), a
freshly opened accessor (get_accessor_for_url dispatch) must return exactly those bytes;
the SHA-256 of the shard files must be identical across all store orders and both buffering
strategies of one (configuration, subset) group; never-stored grid positions must not
decode to voxel data.
"""
import itertools
import os
import random
import shutil
import tempfile

from harness import shardlib
from harness.monitors import tracer

PROPERTY = "C05"
LEVEL = "exploration"
RULE = ("case = group (sharded configuration as in C04, stored subset with gaps at the "
        "start/middle/end of a minishard) x store orders x {on-disk, in-memory} buffering; "
        "ALL permutations of the subset when it has <= 5 chunks, all permutations of the "
        "largest minishard (others shuffled) when every minishard holds <= 5 chunks, "
        "otherwise sampled orders incl. ascending/descending id order; evaluations = writer "
        "runs; distinct = (configuration, subset, order, strategy); non-trivial = at least "
        "two stored chunks share a minishard")
ASSUMPTIONS = ["chunk contents are unique per position (a fetched payload identifies the "
               "store event it came from)", "files are read after close()",
               "a never-stored position may yield an exception or an empty byte string from "
               "fetch_chunk, and must make PrecomputedIO.read_chunk raise"]
MANIFEST = {
    "level_text": "History monitoring with a dictionary model: for each generated "
    "(configuration, subset) the real writer is run under many store orders (exhaustively "
    "for small subsets/minishards) and both buffering strategies; a freshly opened accessor "
    "must return exactly the stored bytes for every stored chunk, the shard files must be "
    "byte-identical across all runs of the group, and never-stored grid positions must "
    "never decode to an array.  Exploration; exhaustive only over the orders of small "
    "groups.",
    "level_note": "Trusted: the dictionary model and SHA-256 comparison.  Internal buffers "
    "are not inspected; only results at the accessor / file boundary.",
    "technique": "runtime monitoring: recorded store history vs. dictionary model on a "
    "fresh reader; differential digest of on-disk effect across interleavings and "
    "buffering strategies",
    "design_ref": "DESIGN.md section 2, C05",
}
REACH = ["MiniShard.flush_buffer", "MiniShard.close", "MiniShard.store_cmc_chunk",
         "ReadableMiniShardCMC.fetch_cmc_chunk", "ShardCMC.populate_minishard_dict",
         "OnDiskBytesDict.__setitem__", "OnDiskByteArray.__iter__"]
WORKER_TIMEOUT = {"quick": 900, "thorough": 5400}
CASE_TIMEOUT = 120


def gen_cases(tier, seed):
    from harness.checks.c04 import DIRECTED
    rnd = random.Random(f"C05:{seed}")
    n = 260 if tier == "quick" else 4000
    cases = []
    for d in DIRECTED:
        for kind in ("dense", "gap_start", "gap_middle", "gap_end"):
            cases.append({"cfg": d, "subset_kind": kind, "sseed": rnd.randrange(2 ** 32),
                          "oseed": rnd.randrange(2 ** 32), "encoding": "raw",
                          "max_runs": 8 if tier == "quick" else 24})
    for k in range(n // 8):
        cases.append({"cfg": shardlib.gen_config_large(rnd), "subset_kind": "large",
                      "sseed": rnd.randrange(2 ** 32), "oseed": rnd.randrange(2 ** 32),
                      "encoding": "raw", "max_runs": 6 if tier == "quick" else 12})
    for k in range(n):
        cfg = shardlib.gen_config(rnd, tier)
        enc = "raw"
        if cfg["data_type"] == "uint32" and rnd.random() < 0.7:
            enc = "compressed_segmentation"   # the encoder hands over a bytearray
        elif cfg["data_type"] == "uint8" and cfg["num_channels"] == 1 and rnd.random() < 0.5:
            enc = "jpeg"      # chunks announced as image/jpeg to the accessor
        cases.append({"cfg": cfg, "subset_kind": None, "sseed": rnd.randrange(2 ** 32),
                      "oseed": rnd.randrange(2 ** 32), "encoding": enc,
                      "max_runs": 24 if tier == "quick" else 120})
    return cases


def _orders(cfg, subset, rnd, max_runs):
    """-> (list of store orders, exhaustive?)"""
    if len(subset) <= 5:
        perms = [list(p) for p in itertools.permutations(subset)]
        if len(perms) <= max_runs:
            return perms, True
        rnd.shuffle(perms)
        return perms[:max_runs], False
    groups = list(shardlib.minishard_groups(cfg, subset).values())
    byid = sorted(subset, key=lambda p: shardlib.cmc_of(cfg, p))
    orders = [byid, list(reversed(byid))]
    biggest = max(groups, key=len)
    if len(biggest) <= 5:
        rest = [p for p in subset if p not in {q for _, q in biggest}]
        perms = list(itertools.permutations([q for _, q in biggest]))
        rnd.shuffle(perms)
        exhaustive = len(perms) + 2 <= max_runs
        for perm in perms[:max_runs - 2]:
            r = list(rest)
            rnd.shuffle(r)
            # interleave the permuted minishard into the shuffled rest at random places
            slots = sorted(rnd.randrange(len(r) + 1) for _ in perm)
            out, k = [], 0
            for i in range(len(r) + 1):
                while k < len(perm) and slots[k] == i:
                    out.append(perm[k])
                    k += 1
                if i < len(r):
                    out.append(r[i])
            orders.append(out)
        return orders, exhaustive
    while len(orders) < min(max_runs, 20):
        o = list(subset)
        rnd.shuffle(o)
        orders.append(o)
    return orders, False


def run_case(case):
    import numpy as np
    from neuroglancer_scripts import accessor as accessor_mod
    from neuroglancer_scripts import precomputed_io, sharded_file_accessor
    cfg = case["cfg"]
    rnd = random.Random(case["sseed"])
    if cfg.get("large"):
        kind, subset = "large", shardlib.gen_subset_large(cfg, rnd)
    else:
        kind, subset = shardlib.gen_subset(cfg, rnd, case["subset_kind"])
    orders, exhaustive = _orders(cfg, subset, random.Random(case["oseed"]), case["max_runs"])
    prof = shardlib.gap_profile(cfg, subset) if not cfg.get("large") else {
        "start": 0, "middle": 0, "end": 0}
    shared = any(len(g) >= 2 for g in shardlib.minishard_groups(cfg, subset).values())
    obs = {"writer_runs": 0, "store_chunk_events": 0, "fetch_checks": 0,
           "never_stored_probes": 0, "never_stored_outcomes": {},
           "groups": 1, "groups_fully_enumerated": int(exhaustive),
           "gap_start": int(prof["start"] > 0), "gap_middle": int(prof["middle"] > 0),
           "gap_end": int(prof["end"] > 0), "strategies": {},
           "bytearray_payloads": int(case["encoding"] == "compressed_segmentation"),
           "jpeg_payloads": int(case["encoding"] == "jpeg"),
           "jpeg_payloads_in_gzip_shards": int(case["encoding"] == "jpeg"
                                               and cfg["data_encoding"] == "gzip"),
           "preshift_ge_1_with_shared_minishard": int(cfg["preshift_bits"] >= 1 and shared),
           "more_than_64_shards": int(cfg["shard_bits"] >= 7 and len(subset) > 200),
           "minishard_data_over_1MiB": int(cfg["chunk"] >= 64 and len(subset) >= 5),
           "identifiers_ge_2_32": int(max(shardlib.cmc_of(cfg, p) for p in subset) >= 2 ** 32),
           "identifiers_gt_2_53": int(max(shardlib.cmc_of(cfg, p) for p in subset) > 2 ** 53)}
    ctx = (f"grid {cfg['grid']} chunk {cfg['chunk']} bits(m,s,p)=({cfg['minishard_bits']},"
           f"{cfg['shard_bits']},{cfg['preshift_bits']}) enc(index,data)=("
           f"{cfg['minishard_index_encoding']},{cfg['data_encoding']}) {case['encoding']} "
           f"subset={kind}[{len(subset)}]")
    v = []
    digests = {}
    keep_dir = None
    stored_ref = None
    top = shardlib.other_filesystem_dir("c05-") if case["sseed"] % 5 == 0 else None
    obs["datasets_on_another_file_system_than_TMPDIR"] = int(top is not None)
    top = top or tempfile.mkdtemp(prefix="c05-")
    try:
        for i, order in enumerate(orders):
            strategy = ("on disk", "in memory")[i % 2]
            if len(orders) <= 12:
                strategies = ("on disk", "in memory")
            else:
                strategies = (strategy,)
            for strategy in strategies:
                d = os.path.join(top, f"run{i}-{strategy[:2]}")
                obs["strategies"][strategy] = obs["strategies"].get(strategy, 0) + 1
                try:
                    pio, acc = shardlib.open_writer(d, cfg, strategy, case["encoding"])
                    tr = tracer.Trace()
                    tracer.trace_accessor(acc, tr)
                    for pos in order:
                        pio.write_chunk(shardlib.chunk_array(np, cfg, pos), "s0",
                                        shardlib.coords_of(cfg, pos))
                    acc.close()
                    if (case["oseed"] + i) % 2 == 0:
                        # (the exit handler closes once more after the caller's own close)
                        acc.close()
                        obs["closed_twice"] = obs.get("closed_twice", 0) + 1
                except Exception as exc:  # noqa: BLE001
                    v.append({"kind": "writer-raised",
                              "detail": f"{ctx} strategy={strategy} order="
                              f"{[list(p) for p in order[:8]]}: {type(exc).__name__}: "
                              f"{str(exc)[:160]}"})
                    shutil.rmtree(d, ignore_errors=True)
                    if len(v) > 3:
                        return {"violations": v, "obs": obs, "evals": max(1, obs["writer_runs"])}
                    continue
                obs["writer_runs"] += 1
                stored = {ev["coords"]: ev["bytes"] for ev in tr.events
                          if ev["op"] == "store_chunk"}
                obs["store_chunk_events"] += len(stored)
                if stored_ref is None:
                    stored_ref = stored
                dg, names = shardlib.tree_digest(os.path.join(d, "s0"), ".shard")
                digests.setdefault(dg, []).append((strategy, [list(p) for p in order[:10]]))
                if keep_dir is None:
                    keep_dir = d
                else:
                    shutil.rmtree(d, ignore_errors=True)
        # ---- one more run in which a few chunks are submitted a second time with the very
        # same bytes (a caller's retry).  The writer may accept or refuse each of them; either
        # way the dataset must close and every stored chunk must be fetched unchanged.
        if case["sseed"] % 3 == 0 and not v and len(orders[0]) >= 2:
            r3 = random.Random(case["oseed"] + 1)
            strategy = r3.choice(("on disk", "in memory"))
            d = os.path.join(top, "run-resubmit")
            order = list(orders[r3.randrange(len(orders))])
            try:
                pio, acc = shardlib.open_writer(d, cfg, strategy, case["encoding"])
                done, again = [], 0
                for pos in order:
                    pio.write_chunk(shardlib.chunk_array(np, cfg, pos), "s0",
                                    shardlib.coords_of(cfg, pos))
                    done.append(pos)
                    if again < 4 and r3.random() < 0.4:
                        again += 1
                        old = r3.choice(done)
                        try:
                            pio.write_chunk(shardlib.chunk_array(np, cfg, old), "s0",
                                            shardlib.coords_of(cfg, old))
                            obs["resubmissions_accepted"] = obs.get(
                                "resubmissions_accepted", 0) + 1
                        except Exception:  # noqa: BLE001
                            obs["resubmissions_refused"] = obs.get(
                                "resubmissions_refused", 0) + 1
                acc.close()
                obs["writer_runs_with_resubmissions"] = int(again > 0)
                # a history with a repeated chunk is not one of the "write orders of a chunk
                # set" whose files must be byte-identical; what the statement demands of ANY
                # history is that every stored chunk is fetched with the bytes stored for it
                acc3 = accessor_mod.get_accessor_for_url(d)
                for coords, payload in (stored_ref or {}).items():
                    obs["fetch_checks"] += 1
                    got = acc3.fetch_chunk("s0", coords)
                    if bytes(got) != payload:
                        v.append({"kind": "fetched-bytes-differ-from-stored",
                                  "detail": f"{ctx} strategy={strategy} with re-submitted "
                                  f"chunks: coords {coords}: got {len(got)} bytes, stored "
                                  f"{len(payload)} bytes"})
                        break
            except Exception as exc:  # noqa: BLE001
                v.append({"kind": "writer-raised-after-a-resubmitted-chunk",
                          "detail": f"{ctx} strategy={strategy} order="
                          f"{[list(p) for p in order[:8]]}: {type(exc).__name__}: "
                          f"{str(exc)[:160]}"})
            shutil.rmtree(d, ignore_errors=True)
        # ---- two datasets of the same geometry written ALTERNATELY by one process (chunk by
        # chunk, each in its own order): each must end up with the file set of a lone run
        if case["sseed"] % 4 == 1 and not v and len(orders[0]) >= 2 and digests:
            r4 = random.Random(case["oseed"] + 2)
            o1 = list(orders[r4.randrange(len(orders))])
            o2 = list(orders[r4.randrange(len(orders))])
            strategy = r4.choice(("on disk", "on disk", "in memory"))
            dirs = [os.path.join(top, "run-twin-a"), os.path.join(top, "run-twin-b")]
            try:
                w = [shardlib.open_writer(dd, cfg, strategy, case["encoding"]) for dd in dirs]
                for pa, pb in zip(o1, o2):
                    for (pio_, _acc), pos in ((w[0], pa), (w[1], pb)):
                        pio_.write_chunk(shardlib.chunk_array(np, cfg, pos), "s0",
                                         shardlib.coords_of(cfg, pos))
                for _pio, acc_ in w:
                    acc_.close()
                obs["datasets_written_alternately"] = 1
                for dd in dirs:
                    dg, _names = shardlib.tree_digest(os.path.join(dd, "s0"), ".shard")
                    if dg not in digests:
                        v.append({"kind": "shard-files-depend-on-order-or-strategy",
                                  "detail": f"{ctx} strategy={strategy}: two datasets written "
                                  "alternately by one process: the files of "
                                  f"{os.path.basename(dd)} differ from those of a lone run"})
                        break
            except Exception as exc:  # noqa: BLE001
                v.append({"kind": "writer-raised",
                          "detail": f"{ctx} strategy={strategy}: two datasets written "
                          f"alternately: {type(exc).__name__}: {str(exc)[:160]}"})
            for dd in dirs:
                shutil.rmtree(dd, ignore_errors=True)
        if len(digests) > 1:
            ex = [x[0] for x in digests.values()]
            v.append({"kind": "shard-files-depend-on-order-or-strategy",
                      "detail": f"{ctx}: {len(digests)} different file-set digests across "
                      f"{obs['writer_runs']} runs, e.g. {ex[0]} vs {ex[1]}"})
        if keep_dir is not None and stored_ref is not None:
            # fresh handle, obtained the way every script obtains it
            acc2 = accessor_mod.get_accessor_for_url(keep_dir)
            if not isinstance(acc2, sharded_file_accessor.ShardedFileAccessor):
                v.append({"kind": "dispatch-not-sharded",
                          "detail": f"{ctx}: get_accessor_for_url returned "
                          f"{type(acc2).__name__} for a dataset whose info declares sharding"})
            else:
                pio2 = precomputed_io.get_IO_for_existing_dataset(acc2)
                for coords, payload in stored_ref.items():
                    obs["fetch_checks"] += 1
                    try:
                        got = acc2.fetch_chunk("s0", coords)
                    except Exception as exc:  # noqa: BLE001
                        v.append({"kind": "stored-chunk-cannot-be-fetched",
                                  "detail": f"{ctx}: coords {coords}: {type(exc).__name__}: "
                                  f"{str(exc)[:120]}"})
                        break
                    if bytes(got) != payload:
                        v.append({"kind": "fetched-bytes-differ-from-stored",
                                  "detail": f"{ctx}: coords {coords}: got {len(got)} bytes, "
                                  f"stored {len(payload)} bytes"})
                        break
                    pos = tuple(c // cfg["chunk"] for c in coords[0::2])
                    arr = pio2.read_chunk("s0", coords)
                    # (a lossy encoding gives back other voxel values by design: the bytes
                    # compared above are what the property is about)
                    if case["encoding"] != "jpeg" and not np.array_equal(
                            arr, shardlib.chunk_array(np, cfg, pos)):
                        v.append({"kind": "decoded-chunk-differs",
                                  "detail": f"{ctx}: coords {coords}"})
                        break
                if cfg.get("large"):
                    r2 = random.Random(case["oseed"])
                    missing = [tuple(r2.randrange(g) for g in cfg["grid"]) for _ in range(12)]
                    missing = [p for p in missing if p not in set(subset)]
                else:
                    missing = [p for p in shardlib.all_positions(cfg) if p not in set(subset)]
                random.Random(case["oseed"]).shuffle(missing)
                for pos in missing[:12]:
                    coords = shardlib.coords_of(cfg, pos)
                    obs["never_stored_probes"] += 1
                    try:
                        got = acc2.fetch_chunk("s0", coords)
                        outcome = "empty-bytes" if len(got) == 0 else "DATA"
                    except Exception as exc:  # noqa: BLE001
                        outcome = type(exc).__name__
                        got = None
                    obs["never_stored_outcomes"][outcome] = \
                        obs["never_stored_outcomes"].get(outcome, 0) + 1
                    if outcome == "DATA":
                        v.append({"kind": "never-stored-chunk-has-bytes",
                                  "detail": f"{ctx}: coords {coords} was never stored but "
                                  f"fetch_chunk returned {len(got)} bytes"})
                    try:
                        arr = pio2.read_chunk("s0", coords)
                        v.append({"kind": "never-stored-chunk-decodes-to-voxels",
                                  "detail": f"{ctx}: coords {coords} was never stored but "
                                  f"read_chunk returned an array {arr.shape}"})
                    except Exception:  # noqa: BLE001
                        pass
    finally:
        shutil.rmtree(top, ignore_errors=True)
    sig = f"{sorted(cfg.items())}|{kind}|{case['sseed'] % 997}|{case['encoding']}"
    return {"violations": v[:8], "obs": obs, "evals": max(1, obs["writer_runs"]),
            "distinct_disjoint": obs["writer_runs"] if shared else 0,
            "sample": {"cfg": cfg, "subset_kind": kind, "stored": len(subset),
                       "orders": len(orders), "all_orders_enumerated": exhaustive,
                       "encoding": case["encoding"],
                       "first_order": [list(p) for p in orders[0][:6]]}}


def gates(obs, tier):
    calls = obs.get("calls", {})
    return {
        "writer_and_reader_reached": obs.get("calls_by_module", {}).get(
            "sharded_file_accessor", 0) > 0 and obs.get("fetch_checks", 0) > 0,
        "gap_start": obs.get("gap_start", 0) > 0,
        "gap_middle": obs.get("gap_middle", 0) > 0,
        "gap_end": obs.get("gap_end", 0) > 0,
        "both_strategies": len(obs.get("strategies", {})) == 2,
        "some_groups_fully_enumerated": obs.get("groups_fully_enumerated", 0) > 10,
        "never_stored_positions_probed": obs.get("never_stored_probes", 0) > 100,
        "bytearray_payloads": obs.get("bytearray_payloads", 0) > 0,
        "preshift_with_shared_minishard": obs.get("preshift_ge_1_with_shared_minishard", 0) > 0,
        "identifiers_beyond_2_32": obs.get("identifiers_ge_2_32", 0) > 0,
        "identifiers_beyond_2_53": obs.get("identifiers_gt_2_53", 0) > 0,
        "accessors_closed_twice": obs.get("closed_twice", 0) > 100,
        "datasets_written_alternately": obs.get("datasets_written_alternately", 0) > 20,
        "jpeg_payloads_in_gzip_shards": obs.get("jpeg_payloads_in_gzip_shards", 0) > 3,
        "more_than_64_shards_in_a_scale": obs.get("more_than_64_shards", 0) > 0,
        "megabyte_minishards": obs.get("minishard_data_over_1MiB", 0) > 0,
        "resubmitted_chunks_refused_and_accepted": obs.get("resubmissions_refused", 0) > 10
        and obs.get("resubmissions_accepted", 0) > 10,
    }
