"""C10 — decoders never misbehave on malformed chunk data.

Monitor: exception type or returned array of ChunkEncoder.decode for raw,
compressed_segmentation and jpeg, over random bytes, truncations, bit flips, splices and
targeted field edits located with the specification-derived parser of C02.  Validity oracle:
data that the independent decoder (strict mode) / a full Pillow load / the exact raw length
accepts must not be rejected and must decode to the reference result.
"""
import io
import random
import signal
import struct

from harness.refs import cseg_spec

PROPERTY = "C10"
LEVEL = "exploration"
RULE = ("case = (encoding, data type, channels, chunk shape, block size / jpeg plane) with a "
        "valid encoding of random data; evaluations = mutated byte strings offered to the "
        "decoder: every truncation up to 256 B then sampled, bit flips, byte splices, random "
        "bytes, appended bytes, and targeted edits of channel offsets, table offsets, "
        "bit-width bytes and value offsets (compressed_segmentation), wrong mode / size / "
        "format images (jpeg).  distinct = distinct (case, byte string); non-trivial = the "
        "byte string differs from the valid encoding")
ASSUMPTIONS = [
    "documented error kind = chunk_encoding.InvalidFormatError",
    "'valid' for mutated compressed_segmentation data = accepted by refs/cseg_spec.decode "
    "with strict_padding (table entries of padding voxels inside the file as well)",
    "'valid' for jpeg = Pillow loads the complete image, mode matches the channel count and "
    "the pixel count equals the chunk's",
    "hang = a decode that exceeds 30 s and again 120 s when repeated (inputs <= 64 KiB)"]
MANIFEST = {
    "level_text": "Robustness monitoring of the real decoders: tens of thousands (quick) to "
    "millions (thorough) of malformed byte strings per run, derived from valid encodings by "
    "truncation, bit flips, splices and field-aware edits, are offered to "
    "ChunkEncoder.decode; the monitor accepts only a correctly shaped/typed array or "
    "InvalidFormatError, bounds the running time, and cross-checks acceptance against an "
    "independent validity oracle so that valid data is never rejected.  Exploration.",
    "level_note": "Trusted: refs/cseg_spec.py and Pillow as validity oracles.  The thorough "
    "tier adds coverage-guided mutation (atheris/libFuzzer, 8 targets x 60 s) with the same "
    "exception-class / shape monitor.",
    "technique": "runtime monitoring under mutation fuzzing: exception-class / shape / dtype "
    "monitor at the decode boundary plus an independent validity oracle and a watchdog",
    "design_ref": "DESIGN.md section 2, C10",
}
REACH = ["RawChunkEncoder.decode", "CompressedSegmentationEncoder.decode",
         "JpegChunkEncoder.decode", "decode_chunk_into", "_decode_channel_into",
         "decode_chunk"]
WORKER_TIMEOUT = {"quick": 900, "thorough": 5400}


def gen_cases(tier, seed):
    rnd = random.Random(f"C10:{seed}")
    n = 2500 if tier == "quick" else 30000
    cases = []
    for k in range(n):
        enc = rnd.choice(["raw", "cseg", "cseg", "cseg", "jpeg"])
        if enc == "raw":
            dt = rnd.choice(["uint8", "uint16", "uint32", "uint64", "float32"])
            C = rnd.choice([1, 2, 3])
        elif enc == "cseg":
            dt = rnd.choice(["uint32", "uint64"])
            C = rnd.choice([1, 1, 2, 3])
        else:
            dt = "uint8"
            C = rnd.choice([1, 3])
        hi = 6 if enc != "jpeg" else 12
        shape = [C, rnd.randint(1, hi), rnd.randint(1, hi), rnd.randint(1, hi)]
        cases.append({"enc": enc, "dtype": dt, "shape": shape,
                      "block": [rnd.choice([1, 2, 3, 4, 8]) for _ in range(3)],
                      "plane": rnd.choice(["xy", "xz"]),
                      "nlab": rnd.choice([1, 2, 3, 5, 17, 300]),
                      "nmut": 90 if tier == "quick" else 250,
                      "vseed": rnd.randrange(2 ** 32)})
    if tier == "thorough":
        # coverage-guided tier (atheris / libFuzzer), one process per target
        for target in ("cseg:uint32:1:5,4,3:2,2,2", "cseg:uint64:2:4,3,5:4,2,8",
                       "cseg:uint64:1:9,7,3:8,8,8", "cseg:uint32:3:2,2,2:1,2,3",
                       "jpeg:uint8:1:6,5,2", "jpeg:uint8:3:4,4,3", "raw:uint16:2:3,2,2",
                       "cseg:uint64:1:1,1,1:8,8,8"):
            cases.append({"enc": "atheris", "target": target, "seconds": 60,
                          "fseed": rnd.randrange(2 ** 31)})
    return cases


class _Alarm(Exception):
    pass


def _on_alarm(signum, frame):
    raise _Alarm()


NUMPY_SIZES = [0]


def worker_obs():
    return {"decodes_with_numpy_integer_chunk_sizes": NUMPY_SIZES[0]}


def _decode_guarded(enc, buf, size, limit):
    from neuroglancer_scripts.chunk_encoding import InvalidFormatError
    signal.signal(signal.SIGALRM, _on_alarm)
    signal.alarm(limit)
    if len(buf) % 3 == 0:
        # the chunk size as a tuple of narrow NumPy integers (e.g. taken from a header array)
        import numpy as np
        size = tuple((np.uint8 if v < 256 else np.int16)(v) for v in size)
        NUMPY_SIZES[0] += 1
    try:
        try:
            return ("ok", enc.decode(buf, size))
        except InvalidFormatError:
            return ("IFE", None)
        except _Alarm:
            return ("timeout", None)
        except Exception as exc:  # noqa: BLE001
            return ("exc", f"{type(exc).__name__}: {str(exc)[:120]}")
    finally:
        signal.alarm(0)


def _mutations(case, valid, rnd, layout):
    """-> list of (label, bytes)"""
    out = [("valid", valid)]
    n = len(valid)
    cuts = list(range(0, min(n, 257))) + [rnd.randrange(n + 1) for _ in range(12)]
    if n > 4:
        cuts += [n - 1, n - 2, n - 3, n - 4]
    for c in sorted(set(cuts)):
        out.append((f"truncate@{c}", valid[:c]))
    budget = case["nmut"]
    for _ in range(budget):
        m = rnd.random()
        b = bytearray(valid)
        if m < 0.25 and n:
            for _k in range(rnd.randint(1, 4)):
                i = rnd.randrange(n)
                b[i] ^= 1 << rnd.randrange(8)
            out.append(("bitflip", bytes(b)))
        elif m < 0.4 and n:
            for _k in range(rnd.randint(1, 6)):
                b[rnd.randrange(n)] = rnd.randrange(256)
            out.append(("bytes", bytes(b)))
        elif m < 0.5 and n:
            i, j = sorted((rnd.randrange(n + 1), rnd.randrange(n + 1)))
            k = rnd.randrange(n + 1)
            out.append(("splice", bytes(b[:k] + b[i:j] + b[k:])))
        elif m < 0.58:
            out.append(("random", rnd.randbytes(rnd.choice([0, 1, 3, 4, 7, 8, 12, 16, 40,
                                                             n, n + 1, max(0, n - 1), 300]))))
        elif m < 0.65:
            out.append(("append", bytes(b) + rnd.randbytes(rnd.randint(1, 9))))
        elif n >= 4:
            # word-level edit (field-aware when a layout is known)
            nwords = n // 4
            interesting = [0, 1, 2, 3, nwords - 1, nwords, nwords + 1, 0xFFFFFF, 0x1000000,
                           0xFFFFFFFF, 0x7FFFFFFF, 0x80000000, rnd.randrange(2 ** 32),
                           rnd.randrange(max(1, nwords))]
            if layout and rnd.random() < 0.8:
                blk = rnd.choice(layout)
                C = case["shape"][0]
                field = rnd.choice(["chan", "chan", "table", "bits", "values", "tablebits"])
                if field == "chan":
                    w = rnd.randrange(C)
                    val = rnd.choice(interesting + [C - 1, C, blk["header_word"],
                                                    blk["table_word"]])
                elif field == "table":
                    w = blk["header_word"]
                    old = struct.unpack_from("<I", b, 4 * w)[0]
                    val = (old & 0xFF000000) | (rnd.choice(interesting) & 0xFFFFFF)
                elif field == "bits":
                    w = blk["header_word"]
                    old = struct.unpack_from("<I", b, 4 * w)[0]
                    val = (old & 0xFFFFFF) | (rnd.choice(
                        [0, 1, 2, 3, 4, 5, 8, 16, 32, 33, 64, 255, rnd.randrange(256)]) << 24)
                elif field == "tablebits":
                    w = blk["header_word"]
                    val = rnd.randrange(2 ** 32)
                else:
                    w = blk["header_word"] + 1
                    val = rnd.choice(interesting)
                struct.pack_into("<I", b, 4 * w, val & 0xFFFFFFFF)
                out.append((f"field:{field}", bytes(b)))
            else:
                w = rnd.randrange(nwords)
                struct.pack_into("<I", b, 4 * w, rnd.choice(interesting))
                out.append(("word", bytes(b)))
    return out


def _jpeg_field_edits(valid, rnd):
    """Targeted edits of JPEG header fields: frame dimensions / precision / component count
    in the SOFn segment, segment lengths, early EOI."""
    out = []
    i = 2
    segs = []
    while i + 4 <= len(valid) and valid[i] == 0xFF:
        marker = valid[i + 1]
        if marker in (0xD8, 0x01) or 0xD0 <= marker <= 0xD7:
            i += 2
            continue
        length = struct.unpack(">H", valid[i + 2:i + 4])[0]
        segs.append((marker, i, length))
        if marker == 0xDA:
            break
        i += 2 + length
    for marker, pos, length in segs:
        b = bytearray(valid)
        for newlen in (0, 1, 2, length - 1, length + 1, 65535):
            struct.pack_into(">H", b, pos + 2, newlen & 0xFFFF)
            out.append((f"jpegfield:len{marker:02x}", bytes(b)))
        if marker in (0xC0, 0xC1, 0xC2):
            prec, h, w, nc = struct.unpack(">BHHB", valid[pos + 4:pos + 10])
            for hh, ww in ((0, 0), (1, 1), (65535, 65535), (32767, 32767), (16384, 16384),
                           (h, w * 2), (h * 2, w), (w, h), (h, 65535), (65535, w),
                           (h + 1, w), (h, w + 1), (46341, 46341)):
                b = bytearray(valid)
                struct.pack_into(">HH", b, pos + 5, hh & 0xFFFF, ww & 0xFFFF)
                out.append(("jpegfield:dims", bytes(b)))
            for pr in (0, 1, 12, 16, 255):
                b = bytearray(valid)
                b[pos + 4] = pr
                out.append(("jpegfield:precision", bytes(b)))
            for n in (0, 1, 2, 3, 4, 255):
                b = bytearray(valid)
                b[pos + 9] = n
                out.append(("jpegfield:ncomp", bytes(b)))
        if marker == 0xDA:
            b = bytearray(valid)
            cut = rnd.randrange(pos, len(valid))
            out.append(("jpegfield:early-eoi", bytes(b[:cut]) + b"\xff\xd9"))
    return out


def _jpeg_extra(case, rnd, np):
    """Well-formed images that are NOT valid chunks: wrong mode, wrong size, other formats."""
    import PIL.Image
    C, Z, Y, X = case["shape"]
    out = []

    def save(img, fmt="jpeg", **kw):
        bio = io.BytesIO()
        img.save(bio, format=fmt, **kw)
        return bio.getvalue()
    g = np.random.default_rng(case["vseed"])
    grey = PIL.Image.fromarray(g.integers(0, 255, (Z * Y, X), dtype=np.uint8))
    rgb = PIL.Image.fromarray(g.integers(0, 255, (Z * Y, X, 3), dtype=np.uint8))
    out.append(("jpeg-mode-L", save(grey)))
    out.append(("jpeg-mode-RGB", save(rgb)))
    out.append(("jpeg-mode-CMYK", save(rgb.convert("CMYK"))))
    out.append(("jpeg-wrong-size", save(PIL.Image.fromarray(
        g.integers(0, 255, (Z * Y + 1, X), dtype=np.uint8)))))
    out.append(("jpeg-transposed-size", save(PIL.Image.fromarray(
        g.integers(0, 255, (X, Z * Y), dtype=np.uint8)))))
    out.append(("png", save(grey, "png")))
    out.append(("gif", save(grey, "gif")))
    out.append(("bmp", save(rgb, "bmp")))
    out.append(("tiff-16bit", save(PIL.Image.fromarray(
        g.integers(0, 65535, (Z * Y, X), dtype=np.uint16)), "tiff")))
    out.append(("png-rgba", save(rgb.convert("RGBA"), "png")))
    out.append(("png-1bit", save(grey.convert("1"), "png")))
    out.append(("png-palette", save(rgb.convert("P"), "png")))
    return out


def run_atheris(case):
    """Run the libFuzzer harness harness/fuzz_c10.py in a subprocess; crashes are replayed
    through the same monitor as the structured tier."""
    import os
    import re
    import shutil
    import subprocess
    import sys
    import tempfile

    import numpy as np
    from neuroglancer_scripts import chunk_encoding as ce
    verif = os.path.dirname(os.path.dirname(os.path.dirname(os.path.abspath(__file__))))
    deps = os.path.join(verif, ".deps-atheris")
    obs = {"atheris_targets": 1, "atheris_executions": 0, "atheris_available": 0,
           "atheris_coverage_edges": 0}
    if not os.path.isdir(os.path.join(deps, "atheris")):
        subprocess.run([sys.executable, "-m", "pip", "install", "-q", "--no-index",
                        "--find-links", "/opt/veriftools/wheels", "--target", deps,
                        "atheris"], capture_output=True, timeout=600)
    if not os.path.isdir(os.path.join(deps, "atheris")):
        obs["atheris_error"] = ["atheris could not be installed from the offline wheelhouse"]
        return {"violations": [], "obs": obs}
    top = tempfile.mkdtemp(prefix="c10f-")
    v = []
    try:
        corpus, art = os.path.join(top, "corpus"), os.path.join(top, "artifacts")
        os.makedirs(corpus)
        os.makedirs(art)
        parts = case["target"].split(":")
        enc_name, dt, nch = parts[0], parts[1], int(parts[2])
        size = tuple(int(x) for x in parts[3].split(","))
        shape = (nch, size[2], size[1], size[0])
        if enc_name == "raw":
            enc = ce.RawChunkEncoder(dt, nch)
        elif enc_name == "cseg":
            enc = ce.CompressedSegmentationEncoder(dt, nch,
                                                   [int(x) for x in parts[4].split(",")])
        else:
            enc = ce.JpegChunkEncoder("uint8", nch)
        g = np.random.default_rng(case["fseed"])
        for i, nlab in enumerate((1, 2, 3, 17, 300)):
            arr = g.integers(0, nlab, size=shape).astype(dt)
            with open(os.path.join(corpus, f"seed{i}"), "wb") as f:
                f.write(bytes(enc.encode(arr)))
        env = dict(os.environ)
        env["PYTHONPATH"] = deps + os.pathsep + env.get("PYTHONPATH", "")
        p = subprocess.run([sys.executable, "-W", "ignore", "-m", "harness.fuzz_c10",
                            case["target"], corpus, art,
                            f"-max_total_time={case['seconds']}", f"-seed={case['fseed']}"],
                           capture_output=True, text=True, timeout=case["seconds"] + 240,
                           env=env, cwd=verif)
        m = re.search(r"stat::number_of_executed_units:\s*(\d+)", p.stderr)
        if m:
            obs["atheris_executions"] = int(m.group(1))
            obs["atheris_available"] = 1
        cov = re.findall(r"cov: (\d+)", p.stderr)
        if cov:
            obs["atheris_coverage_edges"] = int(cov[-1])
        for name in sorted(os.listdir(art)):
            with open(os.path.join(art, name), "rb") as f:
                data = f.read()
            st, res = _decode_guarded(enc, data, size, 120)
            bad = None
            if st == "exc":
                bad = res
            elif st == "timeout":
                bad = "no answer within 120 s"
            elif st == "ok" and (res.shape != shape or res.dtype != np.dtype(dt)):
                bad = f"returned {res.shape} {res.dtype}"
            if bad:
                v.append({"kind": "undocumented-exception" if st == "exc" else
                          "decoder-misbehaves", "hex": data[:400].hex(),
                          "detail": f"coverage-guided fuzzing of {case['target']}: "
                          f"{name} ({len(data)} bytes): {bad}"})
        if not m and not v:
            obs["atheris_error"] = [p.stderr[-300:]]
    finally:
        shutil.rmtree(top, ignore_errors=True)
    return {"violations": v[:5], "obs": obs, "evals": max(1, obs["atheris_executions"]),
            "distinct_disjoint": obs["atheris_executions"],
            "sample": {"atheris_target": case["target"],
                       "executions": obs["atheris_executions"]}}


def run_case(case):
    if case.get("enc") == "atheris":
        return run_atheris(case)
    import numpy as np
    from neuroglancer_scripts import chunk_encoding as ce
    rnd = random.Random(case["vseed"])
    C, Z, Y, X = case["shape"]
    size = (X, Y, Z)
    g = np.random.default_rng(case["vseed"])
    dt = np.dtype(case["dtype"])
    if case["enc"] == "raw":
        enc = ce.RawChunkEncoder(case["dtype"], C)
        if case["dtype"] == "float32":
            arr = g.normal(size=(C, Z, Y, X)).astype(dt)
        else:
            arr = g.integers(0, np.iinfo(dt).max, size=(C, Z, Y, X), dtype=dt, endpoint=True)
    elif case["enc"] == "cseg":
        enc = ce.CompressedSegmentationEncoder(case["dtype"], C, case["block"])
        labels = g.integers(0, np.iinfo(dt).max, size=case["nlab"], dtype=dt, endpoint=True)
        arr = labels[g.integers(0, case["nlab"], size=(C, Z, Y, X))]
    else:
        enc = ce.JpegChunkEncoder("uint8", C, jpeg_plane=case["plane"], jpeg_quality=90)
        arr = g.integers(0, 255, size=(C, Z, Y, X), dtype=np.uint8)
    valid = bytes(enc.encode(arr))
    layout = None
    if case["enc"] == "cseg":
        _, info = cseg_spec.decode(valid, (C, Z, Y, X), case["block"], dt.itemsize,
                                   want_layout=True)
        layout = info["layout"]
    muts = _mutations(case, valid, rnd, layout)
    if case["enc"] == "jpeg":
        muts += _jpeg_extra(case, rnd, np)
        muts += _jpeg_field_edits(valid, rnd)
    obs = {"decodes": 0, "outcomes": {}, "mutation_kinds": {}, "encodings": {case["enc"]: 1},
           "oracle_valid": 0, "accepted_malformed": 0}
    v = []
    seen = set()
    ctx = f"{case['enc']} {case['dtype']} shape(C,Z,Y,X)={case['shape']} " + (
        f"block={case['block']}" if case["enc"] == "cseg" else
        f"plane={case['plane']}" if case["enc"] == "jpeg" else "")
    for label, b in muts:
        if b in seen:
            continue
        seen.add(b)
        kindkey = label.split("@")[0]
        obs["mutation_kinds"][kindkey] = obs["mutation_kinds"].get(kindkey, 0) + 1
        st, res = _decode_guarded(enc, b, size, 30)
        if st == "timeout":
            st, res = _decode_guarded(enc, b, size, 120)
            if st == "timeout":
                v.append({"kind": "decoder-hangs", "detail": f"{ctx}: {label}: no answer "
                          f"within 30 s and again 120 s for {len(b)} bytes",
                          "hex": b[:400].hex()})
                continue
        obs["decodes"] += 1
        obs["outcomes"][st] = obs["outcomes"].get(st, 0) + 1
        if st == "exc":
            v.append({"kind": "undocumented-exception",
                      "detail": f"{ctx}: {label} ({len(b)} bytes): {res}",
                      "hex": b[:400].hex()})
        elif st == "ok":
            res = np.asarray(res)
            if res.shape != (C, Z, Y, X) or res.dtype != dt:
                v.append({"kind": "wrong-shape-or-dtype",
                          "detail": f"{ctx}: {label}: returned {res.shape} {res.dtype}",
                          "hex": b[:400].hex()})
                continue
            if b != valid:
                obs["accepted_malformed"] += 1
        # validity oracle
        want = None
        if case["enc"] == "raw":
            if len(b) == arr.size * dt.itemsize:
                want = np.array(struct.unpack(
                    "<" + str(arr.size) + {"uint8": "B", "uint16": "H", "uint32": "I",
                                           "uint64": "Q", "float32": "f"}[case["dtype"]], b),
                    dtype=dt).reshape(C, Z, Y, X)
        elif case["enc"] == "cseg":
            try:
                out, _ = cseg_spec.decode(b, (C, Z, Y, X), case["block"], dt.itemsize,
                                          strict_padding=True)
                want = np.array(out, dtype=dt)
            except cseg_spec.SpecError:
                want = None
        else:
            want = _pillow_valid(np, b, C, X * Y * Z)
        if want is not None:
            obs["oracle_valid"] += 1
            if st == "IFE":
                v.append({"kind": "valid-data-rejected",
                          "detail": f"{ctx}: {label} ({len(b)} bytes) is valid for the "
                          "independent oracle but the decoder reported a format error",
                          "hex": b[:400].hex()})
            elif st == "ok" and want is not True:
                same = np.array_equal(res, want, equal_nan=True) \
                    if case["dtype"] == "float32" else np.array_equal(res, want)
                if not same:
                    v.append({"kind": "valid-data-decoded-differently",
                              "detail": f"{ctx}: {label}: decoder result differs from the "
                              "independent decoder on data that both accept",
                              "hex": b[:400].hex()})
        if len(v) > 10:
            break
    return {"violations": v, "evals": len(seen), "distinct_disjoint": max(0, len(seen) - 1),
            "obs": obs,
            "sample": {"case": {k: case[k] for k in ("enc", "dtype", "shape", "block", "plane")},
                       "valid_len": len(valid), "mutations": len(seen),
                       "example_mutations": [m[0] for m in muts[-5:]]}}


_PIL_DEFAULT_MAX_PIXELS = int(1024 * 1024 * 1024 // 4 // 3)     # Pillow's documented default


def _pillow_valid(np, b, C, npix):
    """The oracle's own reading of the file with Pillow in its DEFAULT configuration: the
    process-wide settings (pixel limit, tolerance for truncated files) are set to the
    library defaults for the duration of the call and put back as the code under test
    left them."""
    import PIL.Image
    import PIL.ImageFile
    saved = (PIL.Image.MAX_IMAGE_PIXELS, PIL.ImageFile.LOAD_TRUNCATED_IMAGES)
    PIL.Image.MAX_IMAGE_PIXELS = _PIL_DEFAULT_MAX_PIXELS
    PIL.ImageFile.LOAD_TRUNCATED_IMAGES = False
    try:
        img = PIL.Image.open(io.BytesIO(b))
        if img.format != "JPEG":
            return None
        img.load()
    except Exception:  # noqa: BLE001
        return None
    finally:
        PIL.Image.MAX_IMAGE_PIXELS, PIL.ImageFile.LOAD_TRUNCATED_IMAGES = saved
    if (C == 1 and img.mode != "L") or (C == 3 and img.mode != "RGB"):
        return None
    if img.size[0] * img.size[1] != npix:
        return None
    return True


def gates(obs, tier):
    calls = obs.get("calls", {})
    oc = obs.get("outcomes", {})
    mk = obs.get("mutation_kinds", {})
    return {
        "all_decoders_reached": all(calls.get(k, 0) > 0 for k in REACH[:3]),
        "format_errors_observed": oc.get("IFE", 0) > 1000,
        "accepted_results_observed": oc.get("ok", 0) > 200,
        "field_edits_applied": sum(n for k, n in mk.items() if k.startswith("field:")) > 500,
        "jpeg_header_field_edits": sum(n for k, n in mk.items()
                                       if k.startswith("jpegfield:")) > 500,
        "truncations_applied": mk.get("truncate", 0) > 1000,
        "validity_oracle_positive": obs.get("oracle_valid", 0) > 200,
        **({"coverage_guided_tier_ran": obs.get("atheris_available", 0) >= 6
            and obs.get("atheris_executions", 0) > 100000} if tier == "thorough" else {}),
    }
