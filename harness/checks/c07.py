"""C07 — downscalers compute the documented block statistic exactly.

Monitor: return value of Downscaler.downscale (averaging / majority / striding) compared
voxel by voxel with refs/downscale_exact.py (Fractions); unsupported factor triples must
raise NotImplementedError.
"""
import math
import random
from fractions import Fraction

from harness.refs import downscale_exact as dsx
from harness.refs import dtype_exact as dx

PROPERTY = "C07"
LEVEL = "exploration"
DTYPES = ["uint8", "uint16", "uint32", "uint64", "float32"]
RULE = ("case = (method, outside value, data type, channels, shape 1..7 per axis, factor "
        "triple, value pattern, array layout); averaging factors in {1,2}^3, majority/"
        "striding 1..5 per axis; value patterns: type limits, max-1, dyadic halves "
        "(ties), tie-rich label fields, random; every output voxel is compared with the "
        "exact block statistic.  distinct = case signature; non-trivial = some factor > 1")
ASSUMPTIONS = [
    "float32 averaging: the exact mean rounded to float32 is expected; a result is also "
    "accepted when |result - exact mean| <= half a float32 ulp of the result + 2^-48 * the "
    "largest contributing magnitude (float64 evaluation order is not part of the contract; "
    "this only matters for blocks mixing magnitudes more than 2^29 apart)",
    "finite values only"]
MANIFEST = {
    "level_text": "Reference-model monitoring of the real downscalers: every output voxel of "
    "every explored (method, dtype, shape, factors, outside value, layout) case is compared "
    "with an exact Fraction/Counter model (shape ceil(size/factor), dtype unchanged, exact "
    "mean half-to-even with edge/outside completion, majority with smallest label on ties, "
    "first voxel for striding, result inside [min,max] of the contributing values); "
    "unsupported factor triples must raise NotImplementedError.  The same postcondition is "
    "attached as a contract to Downscaler.downscale during the C06/C19 pipelines.",
    "level_note": "Trusted: harness/refs/downscale_exact.py.  uint64 operands above 2^53 "
    "are a recorded finding (float64 work type), tolerated only under that predicate.",
    "technique": "runtime monitoring: outputs of the real downscalers checked voxel-wise "
    "against an exact rational reference model",
    "design_ref": "DESIGN.md section 2, C07",
}
REACH = ["AveragingDownscaler.downscale", "MajorityDownscaler.downscale",
         "StridingDownscaler.downscale"]
WORKER_TIMEOUT = {"quick": 600, "thorough": 3600}
KF = "C07-uint64-average-through-float64"


def gen_cases(tier, seed):
    rnd = random.Random(f"C07:{seed}")
    n = 20000 if tier == "quick" else 1500000
    cases = []
    for k in range(n):
        method = rnd.choice(["average", "average", "average_outside", "majority", "stride"])
        dt = rnd.choice(DTYPES)
        shape = [rnd.choice([1, 2, 3]), rnd.randint(1, 7), rnd.randint(1, 7),
                 rnd.randint(1, 7)]
        if rnd.random() < 0.15:
            shape[rnd.randint(1, 3)] = 1
        if method.startswith("average"):
            factors = [rnd.choice([1, 2]) for _ in range(3)]
        else:
            factors = [rnd.randint(1, 5) for _ in range(3)]
        outside = None
        if method == "average_outside":
            outside = rnd.choice([0.0, 1.0, 255.0, 0.5, -10.0, 300.0, 65535.0, 1e6, 7.25,
                                  float(rnd.randint(0, 300))])
        pattern = rnd.choice(["limits", "dyadic", "labels", "random", "random", "twolabels",
                              "big"])
        if dt == "float32" and method != "majority" and rnd.random() < 0.25:
            pattern = "nan"       # some voxels are not-a-number (masked data)
        cases.append({"method": method, "dtype": dt, "shape": shape, "factors": factors,
                      "outside": outside, "pattern": pattern,
                      "layout": rnd.choice(["C", "C", "F", "view"]),
                      "vseed": rnd.randrange(2 ** 32)})
    # directed: larger arrays (dimensions beyond 32 / 64, odd sizes, production-like chunk)
    for k in range(6 if tier == "quick" else 60):
        method = rnd.choice(["average", "average_outside", "majority", "stride"])
        shape = [rnd.choice([1, 2]), rnd.choice([33, 40, 64, 65]), rnd.choice([17, 32, 33]),
                 rnd.choice([31, 64, 67])]
        if method == "majority":
            shape = [1, rnd.choice([17, 33]), rnd.choice([16, 18]), rnd.choice([31, 34])]
        cases.append({"method": method, "dtype": rnd.choice(DTYPES), "shape": shape,
                      "factors": [rnd.choice([1, 2]) for _ in range(3)] if method.startswith(
                          "average") else [rnd.choice([1, 2, 3]) for _ in range(3)],
                      "outside": 3.0 if method == "average_outside" else None,
                      "pattern": rnd.choice(["random", "limits", "labels", "big"]),
                      "layout": rnd.choice(["C", "F"]), "vseed": rnd.randrange(2 ** 32),
                      "large": True})
    # directed: chunks of more than 2^20 voxels (checked against a vectorised exact
    # integer reference), e.g. depths / slice sizes that are not powers of two
    huge_shapes = [[1, 130, 129, 129], [1, 45, 200, 245], [2, 97, 111, 101],
                   [1, 128, 128, 128], [1, 131, 100, 90], [3, 71, 75, 67]]
    for k, shape in enumerate(huge_shapes if tier == "quick" else huge_shapes * 4):
        cases.append({"method": ["average", "average_outside", "stride"][k % 3]
                      if k >= len(huge_shapes) else "average",
                      "dtype": rnd.choice(["uint8", "uint16", "uint32"]),
                      "shape": shape,
                      "factors": [2, 2, 2] if k < len(huge_shapes) else
                      rnd.choice([[2, 2, 2], [1, 1, 2], [2, 1, 2], [2, 2, 1]]),
                      "outside": 3.0, "pattern": "random", "layout": "C",
                      "vseed": rnd.randrange(2 ** 32), "huge": True})
    # directed: blocks of 256 voxels and more (vote counters wider than 8 bits), few labels,
    # one of them dominating
    for k, factors in enumerate([[8, 8, 4], [16, 16, 2], [8, 8, 8], [4, 8, 8], [16, 4, 4],
                                 [7, 7, 6]]):
        for dtn in ("uint8", "uint32"):
            cases.append({"method": "majority", "dtype": dtn,
                          "shape": [1, factors[2] * 2, factors[1] + 1, factors[0] * 2],
                          "factors": factors, "outside": None, "pattern": "dominant",
                          "layout": "C", "vseed": 100 + k})
    # unsupported factor triples
    for method, factors in [("average", [3, 1, 1]), ("average", [1, 4, 2]),
                            ("average", [0, 1, 1]), ("average", [2, 2]),
                            ("average_outside", [1, 1, 3]), ("stride", [0, 1, 1]),
                            ("majority", [1, 0, 1]), ("stride", [1, 1]),
                            ("majority", [2, 2, 2, 2]), ("stride", [-1, 1, 1]),
                            ("majority", [1.5, 1, 1])]:
        cases.append({"method": method, "dtype": "uint8", "shape": [1, 4, 4, 4],
                      "factors": factors, "outside": 0.0 if "outside" in method else None,
                      "pattern": "random", "layout": "C", "vseed": 1, "unsupported": True})
    return cases


def _values(case, count):
    rnd = random.Random(case["vseed"])
    dt, pat = case["dtype"], case["pattern"]
    if dt == "float32":
        if pat in ("limits", "big"):
            pool = [0.0, 1.0, -1.0, 3.4028234663852886e38, -3.4028234663852886e38,
                    1.1754943508222875e-38, 1e-45, 16777216.0, 16777215.0, 0.5, 1.5]
        elif pat in ("dyadic", "labels", "twolabels"):
            pool = [k / 8.0 for k in range(-40, 41)] + [float(2 ** k) for k in range(0, 20)]
        else:
            pool = None
        if pat == "nan":
            return [float("nan") if rnd.random() < 0.12 else rnd.choice(
                [k / 8.0 for k in range(-40, 41)]) for _ in range(count)]
        if pool:
            return [rnd.choice(pool) for _ in range(count)]
        return [dx.f32(rnd.uniform(-1, 1) * 2.0 ** rnd.randint(-10, 30)) for _ in range(count)]
    lo, hi = dx.INT_RANGE[dt]
    if pat == "dominant":
        return [7 if rnd.random() < 0.9 else rnd.choice([3, 9, 200]) for _ in range(count)]
    if pat == "limits":
        pool = [lo, lo + 1, hi, hi - 1, hi - 2, (hi + 1) // 2, (hi + 1) // 2 - 1]
    elif pat == "dyadic":
        pool = list(range(0, 9)) + [hi - k for k in range(0, 9)]
    elif pat == "labels":
        pool = [rnd.randint(lo, hi) for _ in range(3)] + [0, 1, 2]
    elif pat == "twolabels":
        a = rnd.randint(lo, hi)
        pool = [a, min(hi, a + 1)]
    elif pat == "big":
        pool = [hi - rnd.randint(0, 1000) for _ in range(4)] + [2 ** 53 + 1 if hi > 2 ** 53
                                                                else hi]
        pool = [max(lo, min(hi, p)) for p in pool]
    else:
        return [rnd.randint(lo, min(hi, 2 ** rnd.choice([3, 8, 16, 32, 52]) - 1))
                for _ in range(count)]
    return [rnd.choice(pool) for _ in range(count)]


_SHARED = {}
NUMPY_OUTSIDE = [0]
VIA_AUTO = [0]


def _downscaler(case):
    """Half of the cases reuse one downscaler object per (method, outside value) for the
    whole life of the worker, as the pyramid code does for a whole dataset: state carried
    over from earlier calls (other shapes, other data types) must not matter."""
    if case["vseed"] % 2 == 0:
        key = (case["method"], case["outside"])
        if key not in _SHARED:
            _SHARED[key] = _fresh_downscaler(case)
        return _SHARED[key]
    return _fresh_downscaler(case)


def worker_obs():
    return {"outside_values_given_as_numpy_scalars": NUMPY_OUTSIDE[0],
            "downscalers_chosen_by_the_auto_method": VIA_AUTO[0]}


def _fresh_downscaler(case):
    from neuroglancer_scripts import downscaling
    m = case["method"]
    if m == "average":
        return downscaling.get_downscaler("average", options={})
    if m == "average_outside":
        ov = case["outside"]
        if case["vseed"] % 4 == 1:
            # the configured value arrives as a NumPy scalar (volume.max(), an element of an
            # array), of the narrowest type that holds it
            import numpy as np
            for ndt in (np.uint8, np.int16, np.uint16, np.int32, np.float32):
                try:
                    if float(ndt(ov)) == float(ov):
                        ov = ndt(ov)
                        NUMPY_OUTSIDE[0] += 1
                        break
                except (OverflowError, ValueError):
                    continue
        if case["vseed"] % 3 == 0:
            # the default method "auto" picks the averaging method for image datasets and
            # hands it the same options (the way compute-scales is run without
            # --downscaling-method)
            VIA_AUTO[0] += 1
            return downscaling.get_downscaler("auto", {"type": "image"},
                                              {"outside_value": ov})
        return downscaling.get_downscaler("average", options={"outside_value": ov})
    if m == "stride" and case["vseed"] % 3 == 0:
        VIA_AUTO[0] += 1
        return downscaling.get_downscaler("auto", {"type": "segmentation"},
                                          {"outside_value": 7.0})
    return downscaling.get_downscaler(m)


def _float64_may_round(bv):
    """Predicate of the recorded finding: the float64 work type cannot be guaranteed exact
    for this block.  Three pairwise sums/halvings add up to 3 bits above the largest
    operand and 3 below the finest operand resolution."""
    fr = 0
    for b in bv:
        d = Fraction(b).denominator
        if d & (d - 1):
            return True
        fr = max(fr, d.bit_length() - 1)
    top = max(int(abs(Fraction(b))) for b in bv).bit_length()
    return top + 3 + fr + 3 > 53


def _ulp32(x):
    x = abs(x)
    if x == 0 or x < 2.0 ** -126:
        return 2.0 ** -149
    return 2.0 ** (math.frexp(x)[1] - 1 - 23)


def run_huge(case):
    """> 2^20 voxels: exact reference with int64 arithmetic (integer data types)."""
    import numpy as np
    g = np.random.default_rng(case["vseed"])
    dt = np.dtype(case["dtype"])
    shape = case["shape"]
    hi = min(np.iinfo(dt).max, 2 ** 31)
    arr = g.integers(0, hi, size=shape, dtype=np.int64, endpoint=True).astype(dt)
    dx_, dy_, dz_ = case["factors"]
    m = case["method"]
    obs = {"methods": {m: 1}, "dtypes": {case["dtype"]: 1}, "voxels": 0, "huge_arrays": 1}
    ds = _downscaler(dict(case, outside=case["outside"] if m == "average_outside" else None))
    try:
        out = np.asarray(ds.downscale(arr, (dx_, dy_, dz_)))
    except Exception as exc:  # noqa: BLE001
        return {"violations": [{"kind": "downscale-raised", "detail":
                                f"{m} {case['dtype']} shape {shape}: {type(exc).__name__}: "
                                f"{exc}"}], "obs": obs}
    want_shape = dsx.out_shape(tuple(shape), [dx_, dy_, dz_])
    v = []
    if tuple(out.shape) != want_shape or out.dtype != dt:
        return {"violations": [{"kind": "wrong-shape-or-dtype", "detail":
                                f"{m} shape {shape} factors {case['factors']}: got "
                                f"{out.shape} {out.dtype}, want {want_shape} {dt}"}],
                "obs": obs}
    a = arr.astype(np.int64)
    if m == "stride":
        want = a[:, ::dz_, ::dy_, ::dx_]
    else:
        # complete overhanging blocks (edge replication or the outside value), then sum
        pads = [(0, 0), (0, -shape[1] % dz_), (0, -shape[2] % dy_), (0, -shape[3] % dx_)]
        if m == "average":
            a = np.pad(a, pads, mode="edge")
        else:
            a = np.pad(a, pads, mode="constant", constant_values=int(case["outside"]))
        c, z, y, x = a.shape
        s_ = a.reshape(c, z // dz_, dz_, y // dy_, dy_, x // dx_, dx_).sum(axis=(2, 4, 6))
        n = dz_ * dy_ * dx_
        q, r = np.divmod(s_, n)
        want = q + ((2 * r > n) | ((2 * r == n) & (q % 2 == 1)))
        want = np.clip(want, 0, np.iinfo(dt).max)
    obs["voxels"] = int(want.size)
    if not np.array_equal(out.astype(np.int64), want):
        bad = np.argwhere(out.astype(np.int64) != want)
        i = tuple(int(q_) for q_ in bad[0])
        v.append({"kind": "wrong-value", "detail":
                  f"{m} {case['dtype']} shape {shape} factors {case['factors']}: "
                  f"{len(bad)} of {want.size} voxels differ, e.g. output {i} = {out[i]}, "
                  f"exact reference {want[i]}"})
    return {"violations": v, "obs": obs, "sigs": [f"huge|{m}|{case['dtype']}|{shape}|"
                                                  f"{case['factors']}"],
            "sample": {k: case[k] for k in ("method", "dtype", "shape", "factors")}}


def run_case(case):
    if case.get("huge"):
        return run_huge(case)
    import numpy as np
    shape = case["shape"]
    count = shape[0] * shape[1] * shape[2] * shape[3]
    vals = _values(case, count)
    dt = np.dtype(case["dtype"])
    base = np.array(vals, dtype=dt).reshape(shape)
    if case["layout"] == "F":
        arr = np.asfortranarray(base)
    elif case["layout"] == "view":
        big = np.zeros([shape[0], shape[1], shape[2], shape[3] * 2 + 1], dtype=dt)
        big[..., 1::2] = base
        arr = big[..., 1::2]
    else:
        arr = base
    nested = base.tolist()
    factors = case["factors"]
    ds = _downscaler(case)
    obs = {"methods": {case["method"]: 1}, "dtypes": {case["dtype"]: 1}, "voxels": 0,
           "majority_blocks_of_256_voxels_or_more": int(
               case["method"] == "majority" and len(case["factors"]) == 3 and all(
                   isinstance(f, int) for f in case["factors"])
               and case["factors"][0] * case["factors"][1] * case["factors"][2] >= 256),
           "large_arrays": int(bool(case.get("large"))),
           "ties": 0, "overhang_blocks": 0, "unsupported_probes": 0}
    before = base.tobytes()
    try:
        with np.errstate(all="ignore"):
            out = ds.downscale(arr, tuple(factors))
        raised = None
    except NotImplementedError:
        raised = "NotImplementedError"
    except Exception as exc:  # noqa: BLE001
        raised = f"{type(exc).__name__}: {exc}"
    if case.get("unsupported"):
        obs["unsupported_probes"] = 1
        v = []
        if raised != "NotImplementedError":
            v.append({"kind": "unsupported-factors-not-refused",
                      "detail": f"{case['method']} factors {factors}: "
                      f"{raised or 'returned an array'} instead of NotImplementedError"})
        return {"violations": v, "obs": obs}
    if raised:
        return {"violations": [{"kind": "downscale-raised",
                                "detail": f"{case['method']} {case['dtype']} shape {shape} "
                                f"factors {factors}: {raised}"}], "obs": obs}
    v = []
    out = np.asarray(out)
    want_shape = dsx.out_shape(tuple(shape), factors)
    if tuple(out.shape) != want_shape or out.dtype != dt:
        v.append({"kind": "wrong-shape-or-dtype",
                  "detail": f"{case['method']} shape {shape} factors {factors}: got "
                  f"{out.shape} {out.dtype}, want {want_shape} {dt}"})
        return {"violations": v, "obs": obs}
    if arr.tobytes() != before:
        v.append({"kind": "input-modified", "detail": f"{case['method']} modified its input"})
    with np.errstate(all="ignore"):
        again = np.asarray(ds.downscale(arr, tuple(factors)))
    if again.shape != out.shape or again.tobytes() != np.ascontiguousarray(out).tobytes():
        v.append({"kind": "second-call-differs",
                  "detail": f"{case['method']} {case['dtype']} shape {shape} factors {factors}: "
                  "downscaling the same array twice gives different results"})
    got = out.tolist()
    if case["vseed"] % 2 == 0 and not case.get("huge"):
        # results kept while the same object downscales ANOTHER chunk of the same shape
        # (np.concatenate([d.downscale(c, f) for c in chunks])): the earlier result stays
        held = out.tobytes()
        other = np.ascontiguousarray(arr[..., ::-1, ::-1])
        try:
            with np.errstate(all="ignore"):
                ds.downscale(other, tuple(factors))
            obs["later_calls_with_earlier_result_held"] = 1
            if out.tobytes() != held:
                v.append({"kind": "earlier-result-changed-by-a-later-call",
                          "detail": f"{case['method']} {case['dtype']} shape {shape} factors "
                          f"{factors}: the array returned by the first call changed when the "
                          "same downscaler processed another chunk of the same shape"})
        except Exception as exc:  # noqa: BLE001
            v.append({"kind": "downscale-raised",
                      "detail": f"{case['method']} {case['dtype']} shape {shape} factors "
                      f"{factors}: second chunk: {type(exc).__name__}: {exc}"})
    m = case["method"]
    isint = case["dtype"] in dx.INT_RANGE
    for t in range(want_shape[0]):
        for z in range(want_shape[1]):
            for y in range(want_shape[2]):
                for x in range(want_shape[3]):
                    g = got[t][z][y][x]
                    obs["voxels"] += 1
                    known = None
                    if m.startswith("average"):
                        comp = "edge" if case["outside"] is None else case["outside"]
                        bv = dsx.block_values(nested, t, z, y, x, factors, comp)
                        inside = dsx.block_values(nested, t, z, y, x, factors, None)
                        if len(inside) != len(bv):
                            obs["overhang_blocks"] += 1
                        if any(isinstance(b, float) and math.isnan(b) for b in bv):
                            # the mean of a block that contains a not-a-number voxel is
                            # not a number, whatever the chunk geometry
                            obs["blocks_with_nan"] = obs.get("blocks_with_nan", 0) + 1
                            if not (isinstance(g, float) and math.isnan(g)):
                                v.append({"kind": "wrong-value", "detail":
                                          f"{m} {case['dtype']} shape {shape} factors "
                                          f"{factors} outside={case['outside']} layout="
                                          f"{case['layout']}: output {(t, z, y, x)} = {g!r} "
                                          f"for a block that contains NaN ({bv[:8]})"})
                                if len(v) > 8:
                                    return {"violations": v, "obs": obs}
                            continue
                        mean, want = dsx.average_exact(bv, case["dtype"])
                        if isint:
                            if mean.denominator == 2:
                                obs["ties"] += 1
                            ok = (g == want)
                            if case["dtype"] == "uint64" and _float64_may_round(bv):
                                known = KF
                            lo_, hi_ = min(bv), max(bv)
                            lo_t, hi_t = dx.INT_RANGE[case["dtype"]]
                            rng_ok = max(lo_t, math.floor(lo_)) <= g <= min(hi_t, math.ceil(hi_))
                        else:
                            acc = dx.nearest_float32(mean)
                            ok = g in acc
                            if not ok and not math.isinf(g):
                                # float64 evaluation: absolute error far below
                                # 2^-48 * max|operand|, then one rounding to float32
                                slack = float(max(abs(b) for b in bv)) * 2.0 ** -48
                                ok = abs(Fraction(g) - mean) <= Fraction(
                                    _ulp32(g) * 0.5 + slack)
                                obs["float_slack_used"] = obs.get("float_slack_used", 0) + 1
                            want = sorted(acc)
                            rng_ok = (math.isinf(g) and math.inf in map(abs, acc)) or (
                                min(bv) <= g <= max(bv)) or ok
                    elif m == "majority":
                        bv = dsx.block_values(nested, t, z, y, x, factors, None)
                        want = dsx.majority(bv)
                        ok = (g == want)
                        rng_ok = g in bv
                        from collections import Counter
                        c = Counter(bv).most_common(2)
                        if len(c) == 2 and c[0][1] == c[1][1]:
                            obs["ties"] += 1
                    else:
                        bv = dsx.block_values(nested, t, z, y, x, factors, None)
                        want = bv[0]
                        ok = (g == want) or (isinstance(g, float) and isinstance(want, float)
                                             and math.isnan(g) and math.isnan(want))
                        rng_ok = ok
                    if not ok or not rng_ok:
                        viol = {"kind": "wrong-value" if not ok else "outside-min-max",
                                "detail": f"{m} {case['dtype']} shape {shape} factors "
                                f"{factors} outside={case['outside']} layout="
                                f"{case['layout']}: output {(t, z, y, x)} = {g!r}, exact "
                                f"reference {want!r} (block {bv[:8]})"}
                        if known:
                            viol["known"] = known
                        v.append(viol)
                        if len(v) > 8:
                            return {"violations": v, "obs": obs}
    nontrivial = any(f > 1 for f in factors)
    sig = f"{m}|{case['dtype']}|{shape}|{factors}|{case['outside']}|{case['pattern']}|" \
          f"{case['layout']}|{case['vseed'] % 1000}"
    return {"violations": v, "obs": obs, "sigs": [sig] if nontrivial else [],
            "sample": {k: case[k] for k in ("method", "dtype", "shape", "factors", "outside",
                                            "pattern", "layout")}}


def gates(obs, tier):
    calls = obs.get("calls", {})
    return {
        "all_methods_reached": all(calls.get(k, 0) > 0 for k in REACH),
        "all_dtypes": len(obs.get("dtypes", {})) == len(DTYPES),
        "ties_seen": obs.get("ties", 0) > 50,
        "overhanging_blocks_seen": obs.get("overhang_blocks", 0) > 50,
        "unsupported_probes_run": obs.get("unsupported_probes", 0) >= 10,
        "arrays_beyond_64_per_axis": obs.get("large_arrays", 0) > 0,
        "arrays_beyond_2_20_voxels": obs.get("huge_arrays", 0) > 0,
        "later_calls_with_earlier_result_held": obs.get(
            "later_calls_with_earlier_result_held", 0) > 500,
        "downscalers_chosen_by_the_auto_method": obs.get(
            "downscalers_chosen_by_the_auto_method", 0) > 20,
        "outside_values_given_as_numpy_scalars": obs.get(
            "outside_values_given_as_numpy_scalars", 0) > 20,
        "blocks_containing_nan": obs.get("blocks_with_nan", 0) > 100,
        "majority_blocks_of_256_voxels_or_more": obs.get(
            "majority_blocks_of_256_voxels_or_more", 0) >= 8,
    }
