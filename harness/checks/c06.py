"""C06 — each pyramid level equals the whole previous level downscaled once.

Monitors: (1) all chunks of all scales read back through a fresh accessor after
compute_dyadic_scales and compared with downscaler.downscale(<whole previous level>);
(2) the `np` seen by dyadic_pyramid is replaced by a poisoning allocator: the pyramid is
computed twice with two poison patterns - a voxel that differs between the runs was never
written; (3) tracer on write_chunk: when a transition raises, the chunks it had already
written are still compared; (4) the C07 postcondition is attached as a contract to
Downscaler.downscale for every internal call.
"""
import copy
import itertools
import os
import random
import shutil
import tempfile

from harness import shardlib
from harness.monitors import poison, tracer

PROPERTY = "C06"
LEVEL = "exploration"
RULE = ("case = pyramid: info from the real fill_scales_for_dyadic_pyramid over sizes 1..100 "
        "per axis (odd, smaller than a chunk), resolution triples from isotropic to 1:4:64 "
        "and non-dyadic ratios, target chunk sizes 2..16, max_scales; or a hand-written info "
        "with random (also non-power-of-two, non-cubic) chunk sizes per scale; methods "
        "average (with/without outside value) / majority / stride; all data types, 1-3 "
        "channels, raw / compressed_segmentation, deep/flat/gzip and sharded storage; every "
        "scale transition is checked.  distinct = (info signature, method, dtype, storage); "
        "non-trivial = >= 2 scales and some transition assembles a chunk from >= 2 old chunks")
ASSUMPTIONS = [
    "the reference for level n+1 is the repository's own downscaler applied to level n read "
    "back as one array (the statement of the property); the downscalers themselves are C07",
    "a transition may raise instead of completing; chunks written before the error are "
    "still required to be correct"]
MANIFEST = {
    "level_text": "Differential monitoring of the real pyramid computation on real "
    "accessors: every level is re-read through a fresh accessor and compared voxel-wise "
    "with the previous level downscaled as one array; a poisoning np.empty (two patterns, "
    "two runs) exposes voxels that were never written; transitions that raise are accepted "
    "only if what they wrote before is correct.  Coverage gates require poisoned allocations "
    "in every run, both fetch factors, border chunks, single-chunk axes, sharded storage and "
    "refused transitions.  Exploration over generated infos.",
    "level_note": "Trusted: NumPy array comparison, the repository's downscalers as the "
    "whole-array reference (checked independently by C07).",
    "technique": "runtime monitoring: differential oracle (chunked pipeline vs whole-array "
    "downscale), poisoned-allocator differential for unwritten voxels, write tracer, "
    "icontract postcondition on Downscaler.downscale",
    "design_ref": "DESIGN.md section 2, C06",
}
REACH = ["compute_dyadic_scales", "compute_dyadic_downscaling", "load_and_downscale_old_chunk",
         "fill_scales_for_dyadic_pyramid"]
WORKER_TIMEOUT = {"quick": 1200, "thorough": 7200}
CASE_TIMEOUT = 600
DTYPES = ["uint8", "uint16", "uint32", "uint64", "float32"]
_SHARED = {}
RESOLUTIONS = [[1, 1, 1], [1, 1, 2], [1, 2, 2], [2, 1, 1], [1, 1, 4], [4, 1, 1], [2, 1, 9],
               [1, 1.5, 2.9], [3, 1, 1], [1, 16, 16], [1, 4, 32], [1, 4, 16], [1, 4, 64],
               [0.8, 0.8, 1.2], [1, 2, 4], [8, 2, 1], [1, 1, 1.5], [10, 10, 25], [5, 1, 1]]


def gen_cases(tier, seed):
    rnd = random.Random(f"C06:{seed}")
    n = 150 if tier == "quick" else 2200
    cases = []
    for k in range(n):
        method = rnd.choice(["average", "average", "average_outside", "stride", "majority",
                             "auto", "auto_outside"])
        dt = rnd.choice(DTYPES)
        target = rnd.choice([2, 4, 4, 8, 16])
        hi = 24 if method == "majority" else rnd.choice([12, 40, 100])
        hi = min(hi, target * (9 if tier == "quick" else 12))   # bound the chunk count
        size = [rnd.randint(1, hi) for _ in range(3)]
        if rnd.random() < 0.15:
            size[rnd.randrange(3)] = 1
        enc = "compressed_segmentation" if dt in ("uint32", "uint64") and rnd.random() < 0.4 \
            else "raw"
        cases.append({
            "mode": "generated" if rnd.random() < 0.75 else "handwritten",
            "size": size, "resolution": rnd.choice(RESOLUTIONS),
            "target": target,
            "max_scales": rnd.choice([None, None, None, 2, 3]),
            "method": method, "outside": rnd.choice([0.0, 255.0, 7.0]),
            "dtype": dt, "channels": rnd.choice([1, 1, 2, 3]), "encoding": enc,
            "storage": rnd.choice(["deep", "flat", "gzip", "sharded", "sharded"]),
            "strategy": rnd.choice(["on disk", "in memory"]),
            "vseed": rnd.randrange(2 ** 32)})
    # directed: chunks of more than 2^20 voxels (target chunk size 128)
    for k in range(1 if tier == "quick" else 4):
        cases.append({"mode": "generated", "size": [rnd.choice([258, 261]), 131, 130],
                      "resolution": [1, 1, 1], "target": 128, "max_scales": None,
                      "method": ["average", "stride"][k % 2], "outside": 0.0,
                      "dtype": ["uint8", "uint16"][k % 2], "channels": 1,
                      "encoding": "raw", "storage": "flat", "strategy": "on disk",
                      "vseed": rnd.randrange(2 ** 32)})
    # directed: isotropic volumes (cubic chunks at every level) on sharded storage
    for k in range(6 if tier == "quick" else 40):
        cases.append({"mode": "generated", "size": [rnd.randint(5, 40) for _ in range(3)],
                      "resolution": [1, 1, 1], "target": rnd.choice([4, 8]),
                      "max_scales": None, "method": rnd.choice(["average", "stride",
                                                                "majority"]),
                      "outside": 0.0, "dtype": rnd.choice(DTYPES), "channels": 1,
                      "encoding": "raw", "storage": "sharded",
                      "strategy": rnd.choice(["on disk", "in memory"]),
                      "vseed": rnd.randrange(2 ** 32)})
    # directed: default-sized chunks (64), three or more scales, one long axis
    for k in range(4 if tier == "quick" else 30):
        size = [rnd.choice([300, 270, 513]), rnd.randint(3, 70), rnd.randint(2, 40)]
        rnd.shuffle(size)
        cases.append({"mode": "generated", "size": size,
                      "resolution": rnd.choice([[1, 1, 1], [1, 1, 2], [2, 1, 1], [1, 4, 4]]),
                      "target": 64, "max_scales": None,
                      "method": rnd.choice(["average", "stride"]), "outside": 0.0,
                      "dtype": rnd.choice(["uint8", "uint16", "float32"]), "channels": 1,
                      "encoding": "raw", "storage": rnd.choice(["flat", "gzip", "sharded"]),
                      "strategy": "on disk", "vseed": rnd.randrange(2 ** 32)})
    cases.append({"kind": "repo_tests"})
    return cases


def worker_init():
    from harness.monitors import contracts
    contracts.attach_downscale_contracts()
    contracts.attach_routing_contracts()


def worker_obs():
    import inspect
    import re

    from harness.monitors import contracts
    from neuroglancer_scripts import dyadic_pyramid
    src = inspect.getsource(dyadic_pyramid)
    return {"contract_evaluations": dict(contracts.COUNTS),
            "pipeline_has_no_uninitialised_allocation_site": int(
                not re.search(r"\bempty(_like)?\(", src))}


def _build_info(case, rnd):
    from neuroglancer_scripts import dyadic_pyramid
    info = {"type": "image", "data_type": case["dtype"], "num_channels": case["channels"],
            "scales": [{"size": list(case["size"]), "resolution": list(case["resolution"]),
                        "voxel_offset": [0, 0, 0], "encoding": case["encoding"]}]}
    if case["encoding"] != "raw":
        info["scales"][0]["compressed_segmentation_block_size"] = [4, 4, 4]
    if case["mode"] == "generated":
        kw = {"target_chunk_size": case["target"]}
        if case["max_scales"]:
            kw["max_scales"] = case["max_scales"]
        return dyadic_pyramid.fill_scales_for_dyadic_pyramid(info, **kw)
    # hand-written: factors 1 or 2 per axis, arbitrary chunk sizes
    base = info["scales"][0]
    scales = []
    size = list(case["size"])
    for lvl in range(rnd.choice([2, 3, 4])):
        sc = copy.deepcopy(base)
        sc["key"] = f"L{lvl}"
        sc["size"] = list(size)
        sc["resolution"] = [r * 2 ** lvl for r in case["resolution"]]
        if rnd.random() < 0.6:
            c = rnd.choice([2, 4, 8, 16])
            f = [rnd.choice([1, 1, 2]) for _ in range(3)]
            sc["chunk_sizes"] = [[c * x for x in f]]
        else:
            sc["chunk_sizes"] = [[rnd.choice([1, 2, 3, 4, 6, 8, 16]) for _ in range(3)]]
        scales.append(sc)
        factors = [rnd.choice([1, 2, 2]) for _ in range(3)]
        size = [-(-s // f) for s, f in zip(size, factors)]
    info["scales"] = scales
    return info


def _chunks(sc):
    X, Y, Z = sc["size"]
    cs = sc["chunk_sizes"][0]
    for x, y, z in itertools.product(range(0, X, cs[0]), range(0, Y, cs[1]),
                                     range(0, Z, cs[2])):
        yield (x, min(x + cs[0], X), y, min(y + cs[1], Y), z, min(z + cs[2], Z))


def _read_level(np, pio, sc, nc, dt):
    X, Y, Z = sc["size"]
    a = np.zeros((nc, Z, Y, X), dt)
    for c in _chunks(sc):
        a[:, c[4]:c[5], c[2]:c[3], c[0]:c[1]] = pio.read_chunk(sc["key"], c)
    return a


def _repo_tests(prop_obs_key):
    """The repository's own unit tests as one more workload for the contracts (child process,
    contracts attached through sitecustomize)."""
    import os
    import tempfile

    from harness import cli
    fd, report = tempfile.mkstemp(prefix="repotests-", suffix=".jsonl")
    os.close(fd)
    try:
        rc, summary, broken = cli.run_repo_tests(report)
        rep = cli.read_report(report)
    finally:
        os.unlink(report)
    obs = {"repo_test_runs_under_contracts": 1,
           "repo_tests_contract_evaluations": rep["child_contract_evaluations"],
           "repo_tests_summary": [summary[:100]]}
    v = []
    if broken:
        v.append({"kind": "contract-broken-while-the-repository's-own-tests-ran",
                  "detail": " | ".join(b[:200] for b in broken)})
    return {"violations": v, "obs": obs, "evals": 1, "sigs": [],
            "sample": {"kind": "repo_tests", "summary": summary[:100]}}


def run_case(case):
    if case.get("kind") == "repo_tests":
        return _repo_tests("c06")
    import numpy as np
    from neuroglancer_scripts import accessor as accessor_mod
    from neuroglancer_scripts import (downscaling, dyadic_pyramid, file_accessor,
                                      precomputed_io, sharded_file_accessor)
    rnd = random.Random(case["vseed"])
    obs = {"pyramids": 0, "levels_compared": 0, "transitions_completed": 0,
           "transitions_refused": 0, "poisoned_allocations": 0, "runs_without_poison_hit": 0,
           "partial_levels_checked": 0, "fetch_factor_1": 0, "fetch_factor_2": 0,
           "border_chunks": 0, "single_chunk_axis": 0, "storage": {}, "methods": {},
           "generator_refused": 0, "chunks_written_by_pipeline": 0,
           "default_chunk_size_three_scales": 0}
    ctx = (f"{case['mode']} size={case['size']} res={case['resolution']} target={case['target']}"
           f" max_scales={case['max_scales']} {case['method']} {case['dtype']}x"
           f"{case['channels']} {case['encoding']} {case['storage']}")
    try:
        info = _build_info(case, rnd)
    except AssertionError:
        obs["generator_refused"] = 1   # recorded C08 mechanism (excess anisotropy)
        return {"violations": [], "obs": obs}
    except Exception as exc:  # noqa: BLE001
        return {"violations": [{"kind": "scale-generator-raised",
                                "detail": f"{ctx}: {type(exc).__name__}: {exc}"}], "obs": obs}
    obs["chunks_over_2_20_voxels"] = int(case["target"] >= 128)
    obs["default_chunk_size_three_scales"] = int(case["target"] == 64
                                                 and len(info["scales"]) >= 3)
    keys = [s["key"] for s in info["scales"]]
    if len(set(keys)) != len(keys):
        obs["generator_refused"] = 1   # duplicate keys: C08's business
        return {"violations": [], "obs": obs}
    storage = case["storage"]
    if storage == "sharded":
        if any(len(set(s["chunk_sizes"][0])) != 1 for s in info["scales"]):
            storage = "flat"
        else:
            cfg = shardlib.gen_config(rnd, "quick")
            for s in info["scales"]:
                s["sharding"] = shardlib.sharding_of(cfg)
    obs["storage"][storage] = 1
    obs["methods"][case["method"]] = 1
    nc, dt = case["channels"], np.dtype(case["dtype"])
    size = case["size"]
    g = np.random.default_rng(case["vseed"])
    if case["method"] == "majority" or case["encoding"] != "raw":
        vol = g.integers(0, 5, size=(nc, size[2], size[1], size[0])).astype(dt)
    elif dt.kind == "f":
        vol = g.integers(-1000, 1000, size=(nc, size[2], size[1], size[0])).astype(dt) / 4
        if case["vseed"] % 3 == 1:
            # masked data: some voxels are not-a-number; their blocks are, too, whichever
            # way the scales are cut into chunks
            vol[g.random(vol.shape) < 0.04] = np.nan
            obs["volumes_with_nan_voxels"] = 1
    else:
        vol = g.integers(0, min(np.iinfo(dt).max, 2 ** 40), size=(nc, size[2], size[1],
                                                                    size[0]),
                         dtype=np.uint64, endpoint=True).astype(dt)
    opts = {}
    if case["method"] in ("average_outside", "auto_outside"):
        opts["outside_value"] = case["outside"]
    method = {"average_outside": "average", "auto_outside": "auto"}.get(case["method"],
                                                                       case["method"])
    if method == "auto" and rnd.random() < 0.5:
        info["type"] = "segmentation"

    def pipeline_downscaler():
        # the way the command-line tools obtain it; half of the time one object is shared
        # by all pyramids of this worker (state from earlier datasets must not matter)
        key = (method, opts.get("outside_value"), info["type"] if method == "auto" else "")
        if case["vseed"] % 2 == 0:
            if key not in _SHARED:
                _SHARED[key] = downscaling.get_downscaler(method, info, opts)
            return _SHARED[key]
        return downscaling.get_downscaler(method, info, opts)

    def reference_downscaler():
        # built directly from the documented classes, independently of get_downscaler
        if method == "majority":
            return downscaling.MajorityDownscaler()
        if method == "stride" or (method == "auto" and info["type"] == "segmentation"):
            return downscaling.StridingDownscaler()
        return downscaling.AveragingDownscaler(opts.get("outside_value"))
    # features of the transitions
    for a, b in zip(info["scales"], info["scales"][1:]):
        f = [1 if x == y else 2 for x, y in zip(a["size"], b["size"])]
        for ax in range(3):
            hc = a["chunk_sizes"][0][ax] // f[ax]
            if hc:
                ff = b["chunk_sizes"][0][ax] // hc
                if ff == 1:
                    obs["fetch_factor_1"] = 1
                if ff == 2 and b["size"][ax] > hc:
                    obs["fetch_factor_2"] = 1
            if b["size"][ax] % b["chunk_sizes"][0][ax]:
                obs["border_chunks"] = 1
            if b["size"][ax] <= b["chunk_sizes"][0][ax]:
                obs["single_chunk_axis"] = 1
    v = []
    top = tempfile.mkdtemp(prefix="c06-")
    runs = []
    try:
        for run, pattern in enumerate((0x55, 0xAA)):
            d = os.path.join(top, f"run{run}")
            if storage == "sharded":
                acc = sharded_file_accessor.ShardedFileAccessor(d, strategy=case["strategy"])
            else:
                acc = file_accessor.FileAccessor(d, flat=(storage == "flat"),
                                                 gzip=(storage == "gzip"))
            pio = precomputed_io.get_IO_for_new_dataset(copy.deepcopy(info), acc)
            s0 = info["scales"][0]
            for c in _chunks(s0):
                pio.write_chunk(vol[:, c[4]:c[5], c[2]:c[3], c[0]:c[1]], s0["key"], c)
            if storage == "sharded":
                acc.close()
            damaged = None
            if storage != "sharded" and case["vseed"] % 8 == 5 and len(info["scales"]) > 1:
                # a source chunk is missing or cut short (an interrupted earlier step): this
                # pair of scales cannot be processed
                files = sorted(os.path.join(r, f) for r, _d, fs in
                               os.walk(os.path.join(d, s0["key"])) for f in fs)
                victim = files[case["vseed"] // 8 % len(files)]
                if case["vseed"] // 64 % 2:
                    os.unlink(victim)
                    damaged = "removed"
                else:
                    with open(victim, "rb") as fh:
                        content = fh.read()
                    with open(victim, "wb") as fh:
                        fh.write(content[:len(content) // 2])
                    damaged = "cut to half its length"
                obs["damaged_source_runs"] = obs.get("damaged_source_runs", 0) + 1
            if storage != "sharded" and case["vseed"] % 8 == 3 and len(info["scales"]) > 1 \
                    and not damaged:
                # the directory already holds the LAST chunk of the next level, with stale
                # voxels (a partial copy, an interrupted earlier run): the level is computed
                # in full all the same
                s1 = info["scales"][1]
                last = list(_chunks(s1))[-1]
                stale = np.full((nc, last[5] - last[4], last[3] - last[2], last[1] - last[0]),
                                3 if dt.kind != "f" else 3.5, dtype=dt)
                pio.write_chunk(stale, s1["key"], last)
                obs["runs_over_a_partly_present_level"] = obs.get(
                    "runs_over_a_partly_present_level", 0) + 1
            tr = tracer.Trace()
            tracer.trace_io(pio, tr)
            ds = pipeline_downscaler()
            if case["vseed"] % 3 == 0:
                # the object has been used before, on data of another type
                other = "float32" if case["dtype"] != "float32" else "uint8"
                try:
                    ds.downscale(np.full((1, 2, 2, 2), 3, dtype=other), (2, 2, 2)
                                 if method != "majority" else (1, 1, 2))
                    obs["downscaler_used_before_on_other_dtype"] = 1
                except Exception:  # noqa: BLE001
                    pass
            error = None
            with poison.poisoned(dyadic_pyramid, pattern) as px:
                try:
                    dyadic_pyramid.compute_dyadic_scales(pio, ds)
                except Exception as exc:  # noqa: BLE001
                    error = exc
            if storage == "sharded":
                try:
                    acc.close()
                except Exception as exc:  # noqa: BLE001
                    error = error or exc
            if damaged and error is None:
                v.append({"kind": "unreadable-source-chunk-did-not-stop-the-computation",
                          "detail": f"{ctx}: one chunk file of scale {s0['key']} was "
                          f"{damaged} before the pyramid was computed; the computation "
                          "finished without an error"})
                break
            if type(error).__name__ == "ContractBroken":
                # a postcondition attached by the harness fired inside the pipeline: that
                # is an observation of wrong behaviour, not a refusal by the tool
                v.append({"kind": "contract-broken-inside-the-pipeline",
                          "detail": f"{ctx}: {error}"})
                break
            obs["poisoned_allocations"] += px.allocations
            written = [(e["key"], e["coords"]) for e in tr.events
                       if e["op"] == "write_chunk" and e["exc"] is None]
            if px.allocations == 0 and len(info["scales"]) > 1 and (
                    error is None or written):
                obs["runs_without_poison_hit"] += 1
            obs["chunks_written_by_pipeline"] += len(written)
            # read back through a fresh accessor
            fresh = precomputed_io.get_IO_for_existing_dataset(
                accessor_mod.get_accessor_for_url(d))
            levels = [vol]
            for i in range(1, len(info["scales"])):
                sc = info["scales"][i]
                want_chunks = set(_chunks(sc))
                have = {c for k, c in written if k == sc["key"]}
                if have >= want_chunks:
                    try:
                        levels.append(_read_level(np, fresh, sc, nc, dt))
                    except Exception as exc:  # noqa: BLE001
                        v.append({"kind": "written-level-cannot-be-read-back",
                                  "detail": f"{ctx}: scale {sc['key']}: "
                                  f"{type(exc).__name__}: {str(exc)[:150]}"})
                        break
                else:
                    # partial level: compare what was written before the error
                    if error is None:
                        v.append({"kind": "level-incomplete-without-error",
                                  "detail": f"{ctx}: scale {sc['key']}: {len(have)} of "
                                  f"{len(want_chunks)} chunks written, no error raised"})
                    levels.append({c: None for c in have})
                    for c in sorted(have):
                        try:
                            levels[-1][c] = np.array(fresh.read_chunk(sc["key"], c))
                        except Exception:  # noqa: BLE001
                            levels[-1][c] = None
                    break
            runs.append((levels, error))
            if error is not None and not isinstance(error, Exception):
                raise error
        # ---- oracle
        if v:
            return {"violations": v[:4], "obs": obs}
        (lv0, err0), (lv1, err1) = runs
        if (err0 is None) != (err1 is None):
            v.append({"kind": "outcome-depends-on-uninitialised-memory",
                      "detail": f"{ctx}: run A error={err0!r}, run B error={err1!r}"})
        obs["pyramids"] = 1
        ds_ref = reference_downscaler()
        for i in range(1, len(lv0)):
            a, b = info["scales"][i - 1], info["scales"][i]
            f = [1 if x == y else 2 for x, y in zip(a["size"], b["size"])]
            prev = lv0[i - 1]
            if isinstance(prev, dict):
                break
            with np.errstate(all="ignore"):
                want = np.asarray(ds_ref.downscale(prev, tuple(f)))
            cur0, cur1 = lv0[i], (lv1[i] if i < len(lv1) else None)
            tname = f"{a['key']}({a['chunk_sizes'][0]})->{b['key']}({b['chunk_sizes'][0]}) " \
                    f"factors {f}"
            if isinstance(cur0, dict):
                obs["partial_levels_checked"] += 1
                for c, arr in cur0.items():
                    if arr is None:
                        continue
                    exp = want[:, c[4]:c[5], c[2]:c[3], c[0]:c[1]]
                    if arr.shape != exp.shape or not _eq(np, arr, exp):
                        v.append({"kind": "wrong-data-written-before-error",
                                  "detail": f"{ctx}: transition {tname} raised "
                                  f"{type(err0).__name__} but chunk {c} it wrote before "
                                  "differs from the whole-array downscale"})
                        break
                break
            obs["levels_compared"] += 1
            if cur0.shape != want.shape:
                v.append({"kind": "level-shape-differs",
                          "detail": f"{ctx}: {tname}: level shape {cur0.shape}, whole-array "
                          f"downscale {want.shape}"})
                break
            if cur1 is not None and not isinstance(cur1, dict) and not _eq(np, cur0, cur1):
                bad = np.argwhere(cur0 != cur1)[0]
                v.append({"kind": "voxels-never-written",
                          "detail": f"{ctx}: {tname}: voxel (c,z,y,x)={tuple(int(q) for q in bad)} "
                          "differs between two runs that differ only in the fill pattern of "
                          "np.empty"})
                break
            if not _eq(np, cur0, want):
                bad = np.argwhere(~_eqmask(np, cur0, want))[0]
                v.append({"kind": "level-differs-from-whole-array-downscale",
                          "detail": f"{ctx}: {tname}: voxel (c,z,y,x)="
                          f"{tuple(int(q) for q in bad)} is {cur0[tuple(bad)]!r}, whole-array "
                          f"downscale gives {want[tuple(bad)]!r}"})
                break
            obs["transitions_completed"] += 1
        if err0 is not None:
            obs["transitions_refused"] += 1
            if not isinstance(err0, (ValueError, NotImplementedError)) and not v:
                # any error is "fails with an error"; record the class for the evidence
                obs.setdefault("other_error_classes", {})[type(err0).__name__] = 1
    finally:
        shutil.rmtree(top, ignore_errors=True)
    multi = obs["fetch_factor_2"] and len(info["scales"]) >= 2
    sig = f"{[(s['size'], s['chunk_sizes'][0]) for s in info['scales']]}|{case['method']}|" \
          f"{case['dtype']}|{nc}|{case['encoding']}|{storage}"
    return {"violations": v[:4], "obs": obs, "sigs": [sig] if multi else [],
            "sample": {"mode": case["mode"], "size": case["size"],
                       "resolution": case["resolution"], "target": case["target"],
                       "method": case["method"], "dtype": case["dtype"], "storage": storage,
                       "scales": [(s["key"], s["size"], s["chunk_sizes"][0])
                                  for s in info["scales"]],
                       "error": repr(runs[0][1])[:120] if runs else None}}


def _eqmask(np, a, b):
    if a.dtype.kind == "f":
        return (a == b) | (np.isnan(a) & np.isnan(b))
    return a == b


def _eq(np, a, b):
    return a.shape == b.shape and bool(_eqmask(np, a, b).all())


def gates(obs, tier):
    calls = obs.get("calls", {})
    ce = obs.get("contract_evaluations", {})
    return {
        "pipeline_reached": calls.get("compute_dyadic_downscaling", 0) > 0
        and calls.get("compute_dyadic_scales", 0) > 0,
        # (vacuously met when the pipeline module has no uninitialised allocation at all)
        "poisoned_allocations_in_every_run": (obs.get("poisoned_allocations", 0) > 0
                                              and obs.get("runs_without_poison_hit", 0) == 0)
        or obs.get("pipeline_has_no_uninitialised_allocation_site", 0) > 0,
        "levels_compared": obs.get("levels_compared", 0) > 60,
        "fetch_factor_1_and_2": obs.get("fetch_factor_1", 0) > 0
        and obs.get("fetch_factor_2", 0) > 0,
        "border_chunks": obs.get("border_chunks", 0) > 0,
        "single_chunk_axis": obs.get("single_chunk_axis", 0) > 0,
        "sharded_storage": obs.get("storage", {}).get("sharded", 0) > 0,
        "refused_transitions_seen": obs.get("transitions_refused", 0) > 0,
        "all_methods": len(obs.get("methods", {})) == 6,
        "downscaler_objects_with_history": obs.get(
            "downscaler_used_before_on_other_dtype", 0) > 10,
        "chunks_beyond_2_20_voxels": obs.get("chunks_over_2_20_voxels", 0) > 0,
        "default_chunk_size_with_three_scales": obs.get(
            "default_chunk_size_three_scales", 0) > 0,
        "downscale_contract_evaluated": ce.get("downscale", 0) > 1000,
        "damaged_source_scales": obs.get("damaged_source_runs", 0) > 5,
        "runs_over_a_partly_present_level": obs.get("runs_over_a_partly_present_level", 0) > 5,
        "float_volumes_with_nan_voxels": obs.get("volumes_with_nan_voxels", 0) > 2,
        "downscale_contract_evaluated_under_the_repository_tests": obs.get(
            "repo_tests_contract_evaluations", {}).get("downscale", 0) > 0,
    }
