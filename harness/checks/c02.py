"""C02 — compressed_segmentation output conforms to the Neuroglancer format.

Monitors: bytes returned by CompressedSegmentationEncoder.encode are parsed by the
specification-derived validator/decoder (refs/cseg_spec.py); the array returned by
CompressedSegmentationEncoder.decode is compared with the original for package-encoded AND
for reference-encoded data (layouts the package never emits).
"""
import random

from harness.refs import cseg_spec

PROPERTY = "C02"
LEVEL = "exploration"
RULE = ("case = (label dtype, channels 1-4, chunk shape 1..20 per axis, block size from "
        "{1,2,3,4,5,8,16}^3 incl. non-cubic and larger than the chunk, label distribution "
        "aimed at a number of distinct labels per block, label magnitude up to 2^32 / 2^53 / "
        "2^64, array memory layout, alternative-layout style); plus directed cases for 32-bit "
        "indices.  distinct = case signature without the random label values; non-trivial = "
        "at least one block needs >= 1 encoded bit or there is more than one block")
ASSUMPTIONS = [
    "harness/refs/cseg_spec.py is a faithful reading of the published format description",
    "a well-formed file may place tables/values anywhere inside the channel (sharing, "
    "ordering and minimal bit width are not required by the format)"]
MANIFEST = {
    "level_text": "Reference-model monitoring at the codec boundary: every chunk produced by "
    "the real encoder over generated label fields is (a) validated structurally and decoded "
    "by a decoder written only from the format description and compared with the input, (b) "
    "decoded by the package decoder; additionally the package decoder is run on files "
    "produced by an independent reference encoder using layouts the package never emits "
    "(tables after values, shared/unsorted tables, wider bit widths, gaps, reversed channel "
    "order).  Coverage gates require every bit width 0,1,2,4,8,16,32, non-cubic blocks, "
    "blocks larger than the chunk, labels above 2^32 and 2^53.  Exploration, not proof.",
    "level_note": "Trusted: harness/refs/cseg_spec.py (plain integer arithmetic).  Chunks "
    "near the 24-bit table-offset limit (64 MiB) are not reached.",
    "technique": "runtime monitoring: encoder output parsed by an independent spec-derived "
    "decoder/validator; differential check of the package decoder on reference-encoded data",
    "design_ref": "DESIGN.md section 2, C02",
}
REACH = ["encode_chunk", "_encode_channel", "decode_chunk_into", "_decode_channel_into",
         "pad_block", "_pack_encoded_values", "_unpack_encoded_values"]
WORKER_TIMEOUT = {"quick": 900, "thorough": 5400}
BLOCK_CHOICES = [1, 2, 3, 4, 5, 8, 16]
_SHARED = {}


def gen_cases(tier, seed):
    rnd = random.Random(f"C02:{seed}")
    n = 2500 if tier == "quick" else 40000
    cases = []
    for k in range(n):
        dt = rnd.choice(["uint32", "uint64"])
        if rnd.random() < 0.25:
            b = rnd.choice([2, 4, 8])
            block = [b, b, b]
        else:
            block = [rnd.choice(BLOCK_CHOICES) for _ in range(3)]
        hi = 20 if rnd.random() < 0.4 else 9
        shape = [rnd.choice([1, 1, 2, 3, 4]), rnd.randint(1, hi), rnd.randint(1, hi),
                 rnd.randint(1, hi)]
        nlab = rnd.choice([1, 2, 2, 3, 4, 5, 9, 16, 17, 40, 256, 257, 1000, 4096])
        mag = rnd.choice(["small", "u32", "big53", "max", "palette", "palette"])
        cases.append({"dtype": dt, "block": block, "shape": shape, "nlab": nlab, "mag": mag,
                      "layout": rnd.choice(["C", "C", "F", "T", "BE"]),
                      "style": {k2: rnd.random() < 0.5 for k2 in
                                ("tables_after_values", "share_tables", "unsorted_tables",
                                 "wide_bits", "gaps", "channels_reversed")},
                      "vseed": rnd.randrange(2 ** 32)})
        if rnd.random() < 0.2:
            # the same chunk written through the dataset I/O layer into a dataset whose
            # scales are configured with DIFFERENT block sizes (the stored file must follow
            # the block size that the info gives for its own scale)
            cases[-1]["via_io"] = [[rnd.choice(BLOCK_CHOICES) for _ in range(3)]
                                   for _ in range(rnd.choice([1, 2]))]
    # directed: > 65536 distinct labels in one block -> 32 encoded bits
    cases.append({"dtype": "uint32", "block": [64, 32, 33], "shape": [1, 33, 32, 64],
                  "nlab": "all", "mag": "u32", "layout": "C", "style": {}, "vseed": 5})
    if tier == "thorough":
        cases.append({"dtype": "uint64", "block": [41, 41, 41], "shape": [2, 41, 41, 41],
                      "nlab": "all", "mag": "max", "layout": "C",
                      "style": {"share_tables": True}, "vseed": 6})
        cases.append({"dtype": "uint64", "block": [40, 41, 42], "shape": [1, 43, 45, 41],
                      "nlab": "all", "mag": "big53", "layout": "F",
                      "style": {"tables_after_values": True}, "vseed": 7})
    # directed: a production-sized chunk (64^3 voxels, 8^3 blocks = 512 blocks per channel)
    cases.append({"dtype": "uint64", "block": [8, 8, 8], "shape": [1, 64, 64, 64],
                  "nlab": 40, "mag": "big53", "layout": "C", "style": {"share_tables": True},
                  "vseed": 11})
    if tier == "thorough":
        cases.append({"dtype": "uint32", "block": [8, 8, 8], "shape": [2, 64, 64, 64],
                      "nlab": 4096, "mag": "u32", "layout": "F",
                      "style": {"tables_after_values": True, "gaps": True}, "vseed": 12})
    # directed: a channel whose encoded size exceeds 2^24 32-bit words, the largest lookup
    # table offset a block header can hold (the encoder may refuse; it must not emit a file
    # whose headers cannot be followed)
    cases.append({"huge": True, "dtype": "uint64", "block": [8, 8, 8],
                  "shape": [1, 208, 256, 128], "nlab": "all", "mag": "max", "layout": "C",
                  "style": {}, "vseed": 13})
    # directed: 256/257 and 16/17 labels inside one block (bit-width boundaries)
    for nl, blk in [(2, [2, 1, 1]), (3, [3, 1, 1]), (4, [2, 2, 1]), (5, [5, 1, 1]),
                    (16, [4, 4, 1]), (17, [17, 1, 1]), (256, [16, 16, 1]), (257, [16, 17, 1]),
                    (65536, [64, 32, 32])]:
        cases.append({"dtype": rnd.choice(["uint32", "uint64"]), "block": blk,
                      "shape": [1, blk[2], blk[1], blk[0]], "nlab": "all", "mag": "u32",
                      "layout": "C", "style": {"share_tables": True}, "vseed": nl})
    return cases


PALETTES = [[0], [1], [5, 2 ** 32], [256, 512], [0, 2 ** 32], [2 ** 32], [1, 256, 65536],
            [2 ** 40, 2 ** 48], [0, 1], [2 ** 32 + 1, 2 ** 33], [255, 256], [65535, 65536],
            [2 ** 24], [0, 2 ** 24, 2 ** 32], [3], [2 ** 56, 1]]


def _palette_field(case, rnd):
    """Label field built block by block from small palettes of values with many zero
    bytes (multi-byte labels next to uniform 0 / 1 blocks) - the byte patterns of one
    block's table re-occur inside other tables at unaligned positions."""
    C, Z, Y, X = case["shape"]
    bx, by, bz = case["block"]
    top = 2 ** 32 - 1 if case["dtype"] == "uint32" else 2 ** 64 - 1
    out = [0] * (C * Z * Y * X)
    pal_of = {}
    for c in range(C):
        for z in range(Z):
            for y in range(Y):
                for x in range(X):
                    key = (c, x // bx, y // by, z // bz)
                    if key not in pal_of:
                        pal_of[key] = [min(v, top) for v in rnd.choice(PALETTES)]
                    out[((c * Z + z) * Y + y) * X + x] = rnd.choice(pal_of[key])
    return out


def _labels(case, rnd, count):
    if case["mag"] == "palette":
        return _palette_field(case, rnd)
    dt = case["dtype"]
    top = {"small": 300, "u32": 2 ** 32 - 1, "big53": 2 ** 53 + 2 ** 20,
           "max": 2 ** 64 - 1, "palette": 2 ** 64 - 1}[case["mag"]]
    if dt == "uint32":
        top = min(top, 2 ** 32 - 1)
    if case["nlab"] != "all":
        top = max(top, 2 * case["nlab"])
    if case["nlab"] == "all":
        base = rnd.randint(0, max(0, top - count - 1))
        labs = list(range(base, base + count))
        rnd.shuffle(labs)
        return labs
    pool = set()
    if case["mag"] in ("big53", "max"):
        pool.update([top, top - 1, 2 ** 32, 2 ** 32 + 1] if dt == "uint64" else [top])
    while len(pool) < case["nlab"]:
        pool.add(rnd.randint(0, top))
    pool = sorted(pool)[:case["nlab"]] if len(pool) > case["nlab"] else sorted(pool)
    return [rnd.choice(pool) for _ in range(count)]


def _run_huge(case):
    """All-distinct uint64 labels in a chunk large enough for the lookup tables to lie beyond
    the 24-bit table offset of the block header.  Judged with a vectorised reading of the
    specification: every block header must carry a permitted bit width and offsets inside the
    file, and a sample of blocks is decoded from its header alone."""
    import numpy as np
    from neuroglancer_scripts import chunk_encoding as ce
    C, Z, Y, X = case["shape"]
    bx, by, bz = case["block"]
    rng = np.random.default_rng(case["vseed"])
    arr = rng.permutation(Z * Y * X).astype("uint64").reshape(1, Z, Y, X)
    arr += np.uint64(2 ** 63)
    ctx = f"uint64 shape(C,Z,Y,X)={case['shape']} block(x,y,z)={case['block']} all distinct"
    obs = {"channel_beyond_24_bit_table_offsets": 1}
    enc = ce.CompressedSegmentationEncoder("uint64", 1, case["block"])
    try:
        buf = bytes(enc.encode(arr))
    except Exception:  # noqa: BLE001  (refusing what the format cannot hold is permitted)
        obs["oversized_channel_refused"] = 1
        return {"violations": [], "obs": obs, "sigs": ["huge|refused"]}
    obs["oversized_channel_encoded"] = 1
    v = []
    words = np.frombuffer(buf[:len(buf) // 4 * 4], dtype="<u4")
    gx, gy, gz = -(-X // bx), -(-Y // by), -(-Z // bz)
    nblocks = gx * gy * gz
    if len(buf) % 4 or len(words) < 1 + 2 * nblocks or words[0] != 1:
        v.append({"kind": "output-not-well-formed", "detail": f"{ctx}: bad channel header or "
                  f"file length {len(buf)}"})
        return {"violations": v, "obs": obs}
    hdr = words[1:1 + 2 * nblocks].reshape(nblocks, 2)
    bits = hdr[:, 0] >> 24
    toff = (hdr[:, 0] & 0xFFFFFF).astype("int64")
    voff = hdr[:, 1].astype("int64")
    chan = words[1:]
    bad = np.nonzero(~np.isin(bits, [0, 1, 2, 4, 8, 16, 32]))[0]
    if len(bad):
        v.append({"kind": "output-not-well-formed", "detail": f"{ctx}: block {int(bad[0])} "
                  f"declares {int(bits[bad[0]])} encoded bits ({len(bad)} such blocks)"})
        return {"violations": v, "obs": obs}
    vwords = bits.astype("int64") * (bx * by * bz) // 32
    if np.any(voff + vwords > len(chan)) or np.any(toff >= len(chan)):
        v.append({"kind": "output-not-well-formed", "detail": f"{ctx}: offsets past the end "
                  "of the file"})
        return {"violations": v, "obs": obs}
    pick = sorted(set([0, nblocks - 1, nblocks // 2]
                      + [int(k) for k in rng.integers(0, nblocks, 300)]))
    for b in pick:
        x0, y0, z0 = (b % gx) * bx, (b // gx % gy) * by, (b // (gx * gy)) * bz
        nb = int(bits[b])
        n = bx * by * bz
        if nb:
            vw = chan[voff[b]:voff[b] + n * nb // 32]
            idx = ((vw[:, None] >> (np.arange(32 // nb, dtype="uint32") * nb))
                   & np.uint32(2 ** nb - 1 if nb < 32 else 0xFFFFFFFF)).reshape(-1)[:n]
        else:
            idx = np.zeros(n, dtype="int64")
        top = int(idx.max())
        if toff[b] + 2 * (top + 1) > len(chan):
            v.append({"kind": "output-not-well-formed", "detail": f"{ctx}: block {b}: lookup "
                      "table extends past the end of the file"})
            break
        tab = chan[toff[b]:toff[b] + 2 * (top + 1)].astype("uint64")
        lab = (tab[0::2] | (tab[1::2] << np.uint64(32)))[idx].reshape(bz, by, bx)
        want = arr[0, z0:z0 + bz, y0:y0 + by, x0:x0 + bx]
        if not np.array_equal(lab[:want.shape[0], :want.shape[1], :want.shape[2]], want):
            v.append({"kind": "spec-decoder-recovers-different-labels",
                      "detail": f"{ctx}: block {b} at (x,y,z)=({x0},{y0},{z0}) read from its "
                      f"header (bits {nb}, table offset {int(toff[b])}) differs from the "
                      "original labels"})
            break
    obs["blocks_of_oversized_channel_decoded"] = len(pick)
    return {"violations": v, "obs": obs, "sigs": ["huge|encoded"]}


def run_case(case):
    import numpy as np
    from neuroglancer_scripts import chunk_encoding as ce
    if case.get("huge"):
        return _run_huge(case)
    rnd = random.Random(case["vseed"])
    C, Z, Y, X = case["shape"]
    dt = np.dtype(case["dtype"])
    vals = _labels(case, rnd, C * Z * Y * X)
    base = np.array(vals, dtype=dt).reshape(C, Z, Y, X)
    if case["layout"] == "F":
        arr = np.asfortranarray(base)
    elif case["layout"] == "T":
        arr = np.ascontiguousarray(base.transpose(3, 2, 1, 0)).transpose(3, 2, 1, 0)
    elif case["layout"] == "BE":
        arr = base.astype(dt.newbyteorder(">"))       # non-native byte order
    else:
        arr = base
    nested = base.tolist()
    block = case["block"]
    obs = {"bits": {}, "blocks": 0, "noncubic_block": int(len(set(block)) > 1),
           "block_larger_than_chunk": int(block[0] > X or block[1] > Y or block[2] > Z),
           "partial_border_block": int(X % block[0] != 0 or Y % block[1] != 0
                                       or Z % block[2] != 0),
           "labels_ge_2_32": int(max(vals) >= 2 ** 32),
           "labels_gt_2_53": int(max(vals) > 2 ** 53),
           "tables_shared_by_encoder": 0, "alt_layouts_decoded": 0,
           "byte_sparse_palettes": int(case["mag"] == "palette"),
           "big_endian_arrays": int(case["layout"] == "BE"),
           "multi_channel": int(C > 1), "chunk_of_64_cubed": int(Z * Y * X >= 64 ** 3)}
    v = []
    ctx = (f"{case['dtype']} shape(C,Z,Y,X)={case['shape']} block(x,y,z)={block} "
           f"labels={case['nlab']}/{case['mag']} layout={case['layout']}")
    # the I/O layer keeps one encoder per scale and uses it for every chunk (full and border
    # chunks of different shapes): half of the cases share encoders across cases
    key = (case["dtype"], C, tuple(block))
    if case["vseed"] % 2 == 0:
        if key not in _SHARED:
            _SHARED[key] = ce.CompressedSegmentationEncoder(case["dtype"], C, block)
        enc = _SHARED[key]
        obs["shared_encoder_calls"] = 1
    else:
        enc = ce.CompressedSegmentationEncoder(case["dtype"], C, block)
    arr_before = arr.tobytes()
    try:
        buf = enc.encode(arr)
        buf_again = enc.encode(arr)
    except Exception as exc:  # noqa: BLE001
        return {"violations": [{"kind": "encoder-raised",
                                "detail": f"{ctx}: {type(exc).__name__}: {exc}"}], "obs": obs}
    buf = bytes(buf)
    if arr.tobytes() != arr_before:
        v.append({"kind": "encoder-modified-its-input", "detail": ctx})
    if bytes(buf_again) != buf:
        v.append({"kind": "second-encoding-of-the-same-chunk-differs", "detail": ctx})
    # (a) independent validator + decoder
    info = None
    try:
        out, info = cseg_spec.decode(buf, (C, Z, Y, X), block, dt.itemsize)
        if out != nested:
            bad = next((c, z, y, x) for c in range(C) for z in range(Z) for y in range(Y)
                       for x in range(X) if out[c][z][y][x] != nested[c][z][y][x])
            c, z, y, x = bad
            v.append({"kind": "spec-decoder-recovers-different-labels",
                      "detail": f"{ctx}: voxel (c,z,y,x)={bad} encoded as "
                      f"{out[c][z][y][x]}, original {nested[c][z][y][x]}"})
    except cseg_spec.SpecError as exc:
        v.append({"kind": "output-not-well-formed", "detail": f"{ctx}: {exc}"})
    if info:
        obs["bits"] = {str(k): n for k, n in info["bits"].items()}
        obs["blocks"] = info["blocks"]
        obs["tables_shared_by_encoder"] = int(len(info["tables"]) < info["blocks"])
    # (b) the package decoder on the package's own bytes
    try:
        back = enc.decode(buf, (X, Y, Z))
        if back.shape != (C, Z, Y, X) or back.dtype.newbyteorder("=") != dt.newbyteorder("=") \
                or not np.array_equal(back, base):
            v.append({"kind": "package-decoder-differs", "detail": f"{ctx}: round trip "
                      "through the package decoder changed the array"})
        if case["vseed"] % 4 < 2:
            # the same encoder object then decodes ANOTHER chunk of the same shape (a
            # background-only one, and a sparse one): nothing of the chunk decoded before
            # may show through, and the earlier result stays what it was
            held = back.copy()
            zeros = np.zeros_like(base)
            sparse = np.zeros_like(base)
            sparse[..., ::3] = base[..., ::3]
            for other in (zeros, sparse):
                got = enc.decode(bytes(enc.encode(other)), (X, Y, Z))
                obs["second_chunk_decoded_by_the_same_object"] = 1
                if not np.array_equal(got, other):
                    v.append({"kind": "package-decoder-differs", "detail": f"{ctx}: a second "
                              "chunk of the same shape decoded by the same encoder object "
                              f"differs from its labels in {int((got != other).sum())} "
                              "voxels"})
                    break
            if not np.array_equal(back, held):
                v.append({"kind": "package-decoder-differs", "detail": f"{ctx}: the array "
                          "returned for the first chunk changed when the same object decoded "
                          "another chunk"})
    except Exception as exc:  # noqa: BLE001
        v.append({"kind": "package-decoder-raised",
                  "detail": f"{ctx}: {type(exc).__name__}: {exc}"})
    # (c) the package decoder on reference-encoded data (other valid layouts)
    if case["style"] is not None and C * Z * Y * X <= 64 ** 3 * 2:
        alt = cseg_spec.encode(nested, (C, Z, Y, X), block, dt.itemsize, case["style"], rnd)
        chk, _ = cseg_spec.decode(alt, (C, Z, Y, X), block, dt.itemsize)
        if chk != nested:
            return {"violations": [], "harness_error": "reference encoder/decoder disagree"}
        try:
            back = enc.decode(alt, (X, Y, Z))
            obs["alt_layouts_decoded"] = 1
            if back.shape != (C, Z, Y, X) or not np.array_equal(back, base):
                v.append({"kind": "package-decoder-misreads-valid-file",
                          "detail": f"{ctx} style={case['style']}: a well-formed file with "
                          "another layout decodes to different labels"})
        except Exception as exc:  # noqa: BLE001
            v.append({"kind": "package-decoder-rejects-valid-file",
                      "detail": f"{ctx} style={case['style']}: {type(exc).__name__}: {exc}"})
    if case.get("via_io") and not v:
        v.extend(_via_io(case, arr, nested, rnd, obs, ctx))
    nontrivial = bool(info) and (info["blocks"] > 1 or any(b != 0 for b in info["bits"]))
    sig = f"{case['dtype']}|{case['shape']}|{block}|{case['nlab']}|{case['mag']}|" \
          f"{case['layout']}|{sorted(k for k, on in case['style'].items() if on)}"
    return {"violations": v, "obs": obs, "sigs": [sig] if nontrivial else [],
            "sample": {k: case[k] for k in ("dtype", "shape", "block", "nlab", "mag",
                                            "layout", "style")}}


def _via_io(case, arr, nested, rnd, obs, ctx):
    """Write the chunk through PrecomputedIO into every scale of a dataset whose scales have
    different compressed_segmentation block sizes; the bytes that reach the accessor must be
    a well-formed file for the block size of THEIR scale."""
    import shutil
    import tempfile

    import numpy as np
    from neuroglancer_scripts import file_accessor, precomputed_io
    C, Z, Y, X = case["shape"]
    blocks = list(case["via_io"])
    blocks.insert(rnd.randrange(len(blocks) + 1), case["block"])
    info = {"type": "segmentation", "data_type": case["dtype"], "num_channels": C,
            "scales": [{"key": f"s{i}", "size": [X, Y, Z], "chunk_sizes": [[X, Y, Z]],
                        "resolution": [2 ** i] * 3, "voxel_offset": [0, 0, 0],
                        "encoding": "compressed_segmentation",
                        "compressed_segmentation_block_size": list(b)}
                       for i, b in enumerate(blocks)]}
    d = tempfile.mkdtemp(prefix="c02-")
    v = []
    try:
        acc = file_accessor.FileAccessor(d, flat=True, gzip=rnd.random() < 0.5)
        pio = precomputed_io.get_IO_for_new_dataset(info, acc)
        handles = [pio, pio]
        order = list(range(len(blocks)))
        rnd.shuffle(order)
        coords = (0, X, 0, Y, 0, Z)
        for i in order:
            pio.write_chunk(arr, f"s{i}", coords)
        handles[1] = precomputed_io.get_IO_for_existing_dataset(
            file_accessor.FileAccessor(d))
        for i in order:
            raw = acc.fetch_chunk(f"s{i}", coords)
            obs["chunks_checked_via_dataset_io"] = obs.get("chunks_checked_via_dataset_io",
                                                           0) + 1
            if len(set(map(tuple, blocks))) > 1:
                obs["datasets_with_differing_block_sizes"] = 1
            try:
                out, _ = cseg_spec.decode(raw, (C, Z, Y, X), blocks[i],
                                          np.dtype(case["dtype"]).itemsize)
            except cseg_spec.SpecError as exc:
                v.append({"kind": "stored-chunk-not-well-formed-for-its-scale",
                          "detail": f"{ctx}: scale s{i} of a dataset with block sizes "
                          f"{blocks} (written in order {order}): {exc}"})
                break
            if out != nested:
                v.append({"kind": "stored-chunk-decodes-differently-with-the-block-size-of-"
                          "its-scale", "detail": f"{ctx}: scale s{i} of a dataset with "
                          f"block sizes {blocks} (written in order {order})"})
                break
            for h in handles:
                back = h.read_chunk(f"s{i}", coords)
                if not np.array_equal(np.asarray(back), np.array(nested, dtype=case["dtype"])):
                    v.append({"kind": "package-decoder-differs", "detail": f"{ctx}: scale "
                              f"s{i} read back through the dataset I/O layer"})
                    break
    except Exception as exc:  # noqa: BLE001
        v.append({"kind": "dataset-io-raised", "detail": f"{ctx}: block sizes {blocks}: "
                  f"{type(exc).__name__}: {str(exc)[:200]}"})
    finally:
        shutil.rmtree(d, ignore_errors=True)
    return v


def gates(obs, tier):
    calls = obs.get("calls", {})
    bits = obs.get("bits", {})
    return {
        "encoder_and_decoder_reached": obs.get("calls_by_module", {}).get(
            "_compressed_segmentation", 0) > 0 and obs.get("blocks", 0) > 0,
        "every_bit_width_0_1_2_4_8_16_32": all(bits.get(str(b), 0) > 0
                                              for b in (0, 1, 2, 4, 8, 16, 32)),
        "noncubic_blocks": obs.get("noncubic_block", 0) > 20,
        "block_larger_than_chunk": obs.get("block_larger_than_chunk", 0) > 20,
        "partial_border_blocks": obs.get("partial_border_block", 0) > 20,
        "labels_ge_2_32": obs.get("labels_ge_2_32", 0) > 10,
        "labels_gt_2_53": obs.get("labels_gt_2_53", 0) > 10,
        "shared_tables_emitted": obs.get("tables_shared_by_encoder", 0) > 10,
        "alternative_layouts_decoded": obs.get("alt_layouts_decoded", 0) > 50,
        "production_sized_chunk": obs.get("chunk_of_64_cubed", 0) > 0,
        "second_chunk_decoded_by_the_same_object": obs.get(
            "second_chunk_decoded_by_the_same_object", 0) > 500,
        "channel_beyond_24_bit_table_offsets": obs.get(
            "oversized_channel_refused", 0) + obs.get("oversized_channel_encoded", 0) > 0,
        "byte_sparse_label_palettes": obs.get("byte_sparse_palettes", 0) > 50,
        "big_endian_input_arrays": obs.get("big_endian_arrays", 0) > 50,
        "datasets_with_differing_block_sizes_per_scale": obs.get(
            "datasets_with_differing_block_sizes", 0) > 50,
    }
