"""C03 — writing then reading a chunk returns the same array for lossless encodings;
off-grid chunk positions are rejected rather than stored.

Monitors: PrecomputedIO.write_chunk / read_chunk results against a dictionary model
{(scale, coords): array}; boundary tracer on the accessor (an off-grid write must not reach
store_chunk) and a digest of the directory tree; reads through the writing handle and
through a freshly opened handle.
"""
import json
import os
import random
import shutil
import tempfile

from harness import shardlib
from harness.monitors import tracer

PROPERTY = "C03"
LEVEL = "exploration"
RULE = ("case = history: random info (5 data types x 1-4 channels x 1-3 scales with "
        "different chunk sizes, 1-2 chunk_sizes entries per scale, raw / "
        "compressed_segmentation with random block sizes / jpeg with random plane and "
        "quality >= 90), accessor kind (file: flat|deep x gzip x level; sharded: random bit "
        "triple, both encodings, both buffering strategies), a random interleaving of writes "
        "to chunks of different scales (file accessor: including rewrites) with C-, Fortran- "
        "and transposed-view arrays and NumPy-integer coordinates, reads in another random "
        "order through the same and a fresh handle, and off-grid write attempts (misaligned, "
        "wrong maximum, beyond the volume, negative, swapped axes, other scale's grid).  "
        "distinct = history signature; non-trivial = >= 2 chunks written")
ASSUMPTIONS = [
    "JPEG bound: same shape/dtype, max |error| <= 40 and mean |error| <= 5 on smooth "
    "synthetic chunks at quality >= 90 (calibrated: worst observed 18 / 2.2)",
    "rejection of an off-grid position = write_chunk raises AND the accessor's store_chunk is "
    "never called AND the directory tree is unchanged",
    "sharded datasets are read after close()"]
MANIFEST = {
    "level_text": "Model-based history monitoring of the dataset I/O layer: generated "
    "histories of writes and reads over generated dataset descriptions and every accessor "
    "kind are executed on the real PrecomputedIO; every read (same handle and freshly "
    "opened handle) is compared with a dictionary model exactly (raw, "
    "compressed_segmentation) or within a calibrated bound (JPEG); off-grid coordinates "
    "must raise without any store event or change on disk.  Exploration.",
    "level_note": "Trusted: the dictionary model; the grid predicate written from the "
    "precomputed format (0 <= min < size, min multiple of the chunk size, max = min(min+cs, "
    "size) for one of the scale's chunk sizes).",
    "technique": "runtime monitoring: history of write/read events checked against an "
    "executable dictionary model; boundary tracer + directory digest for rejected writes",
    "design_ref": "DESIGN.md section 2, C03",
}
REACH = ["PrecomputedIO.write_chunk", "PrecomputedIO.read_chunk",
         "PrecomputedIO.validate_chunk_coords", "RawChunkEncoder.encode",
         "CompressedSegmentationEncoder.encode", "JpegChunkEncoder.encode",
         "FileAccessor.store_chunk", "ShardedFileAccessor.store_chunk"]
WORKER_TIMEOUT = {"quick": 900, "thorough": 5400}
CASE_TIMEOUT = 120
DTYPES = ["uint8", "uint16", "uint32", "uint64", "float32"]


def gen_cases(tier, seed):
    rnd = random.Random(f"C03:{seed}")
    n = 1200 if tier == "quick" else 20000
    cases = [{"hseed": rnd.randrange(2 ** 32)} for _ in range(n)]
    # directed: chunks of more than 2^20 voxels (raw and compressed_segmentation)
    for k in range(4 if tier == "quick" else 16):
        cases.append({"hseed": rnd.randrange(2 ** 32), "huge": True,
                      "enc": ["raw", "compressed_segmentation"][k % 2],
                      "kind": ["file", "sharded"][(k // 2) % 2]})
    return cases


def _gen_huge(rnd, case):
    enc = case["enc"]
    dt = "uint32" if enc != "raw" else rnd.choice(["uint8", "uint16", "float32"])
    sc = {"key": "s0", "size": [130, 129, 131], "chunk_sizes": [[128, 128, 128]],
          "resolution": [1, 1, 1], "voxel_offset": [0, 0, 0], "encoding": enc}
    if enc != "raw":
        sc["compressed_segmentation_block_size"] = [8, 8, 8]
    if case["kind"] == "sharded":
        sc["sharding"] = shardlib.sharding_of(shardlib.gen_config(rnd, "quick"))
    info = {"type": "image", "data_type": dt, "num_channels": 1, "scales": [sc]}
    return {"kind": case["kind"], "info": info, "huge": True,
            "opts": {"flat": rnd.random() < 0.5, "gzip": rnd.random() < 0.5,
                     "compresslevel": 1},
            "enc_opts": {}, "strategy": rnd.choice(["on disk", "in memory"])}


def _gen_history(rnd):
    kind = rnd.choice(["file", "file", "sharded"])
    enc = rnd.choice(["raw", "raw", "compressed_segmentation", "jpeg"])
    if enc == "jpeg":
        dt, nch = "uint8", rnd.choice([1, 3])
    elif enc == "compressed_segmentation":
        dt, nch = rnd.choice(["uint32", "uint64"]), rnd.choice([1, 1, 2, 3])
    else:
        dt, nch = rnd.choice(DTYPES), rnd.choice([1, 1, 2, 3, 4])
    nscales = rnd.choice([1, 2, 3])
    scales = []
    shard_cfg = None
    if kind == "sharded":
        shard_cfg = shardlib.gen_config(rnd, "quick")
    for i in range(nscales):
        size = [rnd.randint(1, 14) for _ in range(3)]
        if kind == "sharded":
            c = rnd.choice([1, 2, 3, 4, 5])
            css = [[c, c, c]]
        else:
            css = [[rnd.choice([1, 2, 3, 4, 5, 8]) for _ in range(3)]]
            if rnd.random() < 0.3:
                other = [rnd.choice([1, 2, 3, 4, 6]) for _ in range(3)]
                if other != css[0]:
                    css.append(other)
        sc = {"key": f"s{i}", "size": size, "chunk_sizes": css, "resolution": [2 ** i] * 3,
              "voxel_offset": [0, 0, 0], "encoding": enc}
        if enc == "compressed_segmentation":
            sc["compressed_segmentation_block_size"] = [rnd.choice([1, 2, 3, 4, 8])
                                                        for _ in range(3)]
        if kind == "sharded":
            sc["sharding"] = shardlib.sharding_of(shard_cfg)
        scales.append(sc)
    if nscales > 1 and enc != "raw" and rnd.random() < 0.5:
        # encodings are a property of each scale: some scales of a jpeg / segmentation
        # dataset are stored raw, listed in any order
        for sc in rnd.sample(scales, rnd.randint(1, nscales - 1)):
            sc["encoding"] = "raw"
            sc.pop("compressed_segmentation_block_size", None)
    info = {"type": "image" if enc != "compressed_segmentation" else "segmentation",
            "data_type": dt, "num_channels": nch, "scales": scales}
    opts = {"flat": rnd.random() < 0.5, "gzip": rnd.random() < 0.6,
            "compresslevel": rnd.choice([0, 1, 6, 9])}
    enc_opts = {"jpeg_plane": rnd.choice(["xy", "xz"]),
                "jpeg_quality": rnd.choice([90, 95, 100])}
    return {"kind": kind, "info": info, "opts": opts, "enc_opts": enc_opts,
            "strategy": rnd.choice(["on disk", "in memory"])}


def _grid(sc):
    """all valid coords of a scale (over all chunk_sizes entries)"""
    out = []
    sx, sy, sz = sc["size"]
    for cs in sc["chunk_sizes"]:
        for x in range(0, sx, cs[0]):
            for y in range(0, sy, cs[1]):
                for z in range(0, sz, cs[2]):
                    out.append((x, min(x + cs[0], sx), y, min(y + cs[1], sy),
                                z, min(z + cs[2], sz)))
    return sorted(set(out))


def on_grid(sc, coords):
    """Independent grid-membership predicate."""
    try:
        x0, x1, y0, y1, z0, z1 = (int(c) for c in coords)
    except Exception:  # noqa: BLE001
        return False
    lo, hi = (x0, y0, z0), (x1, y1, z1)
    for cs in sc["chunk_sizes"]:
        if all(0 <= lo[a] < sc["size"][a] and lo[a] % cs[a] == 0
               and hi[a] == min(lo[a] + cs[a], sc["size"][a]) for a in range(3)):
            return True
    return False


MAGIC_SEEN = [0, 0]


def _array(np, rnd, info, coords, enc, layout):
    x0, x1, y0, y1, z0, z1 = coords
    shape = (info["num_channels"], z1 - z0, y1 - y0, x1 - x0)
    dt = np.dtype(info["data_type"])
    g = np.random.default_rng(rnd.randrange(2 ** 32))
    if enc == "jpeg":
        zz, yy, xx = np.meshgrid(np.arange(z0, z1), np.arange(y0, y1), np.arange(x0, x1),
                                 indexing="ij")
        chans = []
        for c in range(shape[0]):
            a, b, cc = g.uniform(0.5, 6, 3)
            chans.append(np.clip(20 + 30 * c + a * xx + b * yy + cc * zz, 0, 255))
        arr = np.stack(chans).astype(np.uint8)
    elif dt.kind == "f":
        arr = g.normal(size=shape).astype(dt)
        if arr.size and rnd.random() < 0.3:     # raw storage must preserve every bit pattern
            flat = arr.reshape(-1)
            for special in (np.nan, np.inf, -np.inf, -0.0, 1e-45):
                flat[rnd.randrange(flat.size)] = special
    elif enc == "compressed_segmentation":
        labs = g.integers(0, np.iinfo(dt).max, size=rnd.choice([1, 2, 5, 40]), dtype=dt,
                          endpoint=True)
        if rnd.random() < 0.35:
            # label sets whose little-endian bytes contain each other at shifted positions
            labs = np.array(rnd.choice([[1, 256, 512], [256, 512, 1], [5, 2 ** 32 - 1, 0],
                                        [65536, 1, 256], [2 ** 24, 2 ** 16, 2 ** 8, 1],
                                        [0, 1], [255, 65280, 16711680]]), dtype=dt)
            # regions rather than noise, so that uniform blocks follow multi-label blocks
            idx = (np.add.outer(np.add.outer(np.arange(shape[1]) // 2, np.arange(shape[2]) // 3),
                                np.arange(shape[3]) // 2) % len(labs))
            arr = labs[np.broadcast_to(idx, shape)]
            MAGIC_SEEN[1] += 1
        else:
            arr = labs[g.integers(0, len(labs), size=shape)]
    else:
        arr = g.integers(0, np.iinfo(dt).max, size=shape, dtype=dt, endpoint=True)
    if enc == "raw" and arr.nbytes and rnd.random() < 0.2:
        # stored bytes that begin like a container format (gzip, zlib, JPEG, a JSON brace):
        # an uncompressed raw chunk is whatever its voxels are
        magic = rnd.choice([b"\x1f\x8b\x08\x00", b"\x1f\x8b", b"\x78\x9c", b"\xff\xd8\xff\xe0",
                            b"{\"a\"", b"\x00\x00\x00\x00"])
        raw = np.ascontiguousarray(arr).view(np.uint8).reshape(-1)
        raw[:len(magic)] = np.frombuffer(magic, dtype=np.uint8)[:raw.size]
        arr = raw.view(dt).reshape(shape)
        MAGIC_SEEN[0] += 1
    if layout == "F":
        arr = np.asfortranarray(arr)
    elif layout == "T":
        arr = np.ascontiguousarray(arr.transpose(3, 2, 1, 0)).transpose(3, 2, 1, 0)
    elif layout == "BE":
        # non-native byte order (what nibabel returns for big-endian files)
        arr = arr.astype(arr.dtype.newbyteorder(">"))
    elif layout == "slice":
        big = np.zeros((shape[0], shape[1], shape[2], 2 * shape[3] + 1), dtype=arr.dtype)
        big[..., 1::2] = arr
        arr = big[..., 1::2]
    return arr


def _offgrid(rnd, info, sc):
    """A list of (label, coords) that are NOT on the grid of scale sc."""
    cs = rnd.choice(sc["chunk_sizes"])
    size = sc["size"]
    valid = rnd.choice(_grid(sc))
    x0, x1, y0, y1, z0, z1 = valid
    cands = [
        ("misaligned-min", (x0 + 1, x1 + 1, y0, y1, z0, z1)),
        ("wrong-max-short", (x0, x1 - 1, y0, y1, z0, z1)) if x1 - x0 > 1 else None,
        ("wrong-max-long", (x0, x1 + 1, y0, y1, z0, z1)),
        ("beyond-volume", (-(-size[0] // cs[0]) * cs[0], -(-size[0] // cs[0]) * cs[0] + cs[0],
                           y0, y1, z0, z1)),
        ("far-beyond-volume", (x0, x1, y0 + 7 * cs[1] * (1 + size[1] // cs[1]),
                               y1 + 7 * cs[1] * (1 + size[1] // cs[1]), z0, z1)),
        ("negative-multiple", (-cs[0], 0, y0, y1, z0, z1)),
        ("negative-multiple-z", (x0, x1, y0, y1, -cs[2], min(0, size[2]))),
        ("min-equals-size", (x0, x1, y0, y1, size[2], size[2])),
        ("min-ge-size-aligned", (x0, x1, -(-size[1] // cs[1]) * cs[1],
                                 min(-(-size[1] // cs[1]) * cs[1] + cs[1], size[1]), z0, z1)),
        ("empty-chunk", (x0, x0, y0, y1, z0, z1)),
        ("swapped-axes", (y0, y1, z0, z1, x0, x1)),
        ("reversed", (x1, x0, y0, y1, z0, z1)),
    ]
    for other in info["scales"]:
        if other is not sc:
            cands.append(("other-scale-grid", rnd.choice(_grid(other))))
    out = []
    for c in cands:
        if c is not None and not on_grid(sc, c[1]):
            out.append(c)
    rnd.shuffle(out)
    return out[:6]


def run_case(case):
    import numpy as np
    from neuroglancer_scripts import accessor as accessor_mod
    from neuroglancer_scripts import file_accessor, precomputed_io, sharded_file_accessor
    rnd = random.Random(case["hseed"])
    h = _gen_huge(rnd, case) if case.get("huge") else _gen_history(rnd)
    info = h["info"]
    enc = info["scales"][0]["encoding"]
    d = tempfile.mkdtemp(prefix="c03-")
    v = []
    obs = {"histories": 1, "write_events": 0, "read_checks_same_handle": 0,
           "read_checks_fresh_handle": 0, "rewrites": 0, "offgrid_attempts": 0,
           "offgrid_rejected": 0, "offgrid_kinds": {}, "encodings": {enc: 1},
           "accessors": {h["kind"]: 1}, "noncontiguous_arrays": 0, "numpy_int_coords": 0,
           "chunks_over_2_20_voxels": int(bool(h.get("huge"))),
           "jpeg_max_err": 0, "two_chunk_size_entries": int(any(
               len(s["chunk_sizes"]) > 1 for s in info["scales"]))}
    ctx = (f"{h['kind']} {enc} {info['data_type']}x{info['num_channels']} scales="
           f"{[(s['size'], s['chunk_sizes']) for s in info['scales']]} opts={h['opts']}"
           + (f" strategy={h['strategy']}" if h["kind"] == "sharded" else ""))
    try:
        if h["kind"] == "file":
            acc = file_accessor.FileAccessor(d, **h["opts"])
        else:
            acc = sharded_file_accessor.ShardedFileAccessor(d, strategy=h["strategy"])
        tr = tracer.Trace(keep_bytes=False)
        tracer.trace_accessor(acc, tr)
        try:
            pio = precomputed_io.get_IO_for_new_dataset(
                info, acc, encoder_options=h["enc_opts"])
        except Exception as exc:  # noqa: BLE001
            return {"violations": [{"kind": "dataset-creation-raised",
                                    "detail": f"{ctx}: {type(exc).__name__}: {exc}"}],
                    "obs": obs}
        # ---- writes
        model = {}
        todo = []
        for sc in info["scales"]:
            g = _grid(sc)
            if h["kind"] == "sharded":
                k = rnd.randint(1, len(g)) if not h.get("huge") else 2
                g = sorted(g) if h.get("huge") else g
                todo += [(sc, c) for c in rnd.sample(g, k)]
            else:
                k = min(len(g), rnd.randint(1, 24) if not h.get("huge") else 3)
                picks = rnd.sample(g, k)
                todo += [(sc, c) for c in picks]
                todo += [(sc, c) for c in picks if rnd.random() < 0.2]   # rewrites
        rnd.shuffle(todo)
        todo = todo[:60]
        # Sometimes the dataset description is revised half-way (documented way: store the
        # new info with get_IO_for_new_dataset on the SAME accessor and use the new
        # PrecomputedIO): a scale is appended and written to afterwards.
        revise_at = None
        if rnd.random() < 0.35 and len(todo) >= 2:
            revise_at = rnd.randint(1, len(todo) - 1)
            extra = json.loads(json.dumps(info["scales"][-1]))
            extra["key"] = "added"
            extra["size"] = [rnd.randint(1, 9) for _ in range(3)]
            extra["resolution"] = [64, 64, 64]
            new_grid = _grid(extra)
            late = [(extra, c) for c in rnd.sample(new_grid, min(len(new_grid), 6))]
            todo = todo[:revise_at] + [("REVISE", extra)] + \
                sorted(todo[revise_at:] + late, key=lambda _x: rnd.random())
            obs["info_revisions"] = 1
        for sc, coords in todo:
            if sc == "REVISE":
                info = json.loads(json.dumps(info))
                info["scales"].append(coords)
                try:
                    pio = precomputed_io.get_IO_for_new_dataset(
                        info, acc, overwrite_info=True, encoder_options=h["enc_opts"])
                except Exception as exc:  # noqa: BLE001
                    v.append({"kind": "info-revision-raised",
                              "detail": f"{ctx}: {type(exc).__name__}: {str(exc)[:160]}"})
                    break
                continue
            sc_enc = sc["encoding"]
            layout = rnd.choice(["C", "C", "F", "T", "slice", "BE"]) if sc_enc != "jpeg" else \
                rnd.choice(["C", "C", "F"])
            m0, p0 = MAGIC_SEEN
            arr = _array(np, rnd, info, coords, sc_enc, layout)
            obs["byte_sparse_label_palettes"] = obs.get(
                "byte_sparse_label_palettes", 0) + MAGIC_SEEN[1] - p0
            obs["chunks_beginning_with_container_magic"] = obs.get(
                "chunks_beginning_with_container_magic", 0) + MAGIC_SEEN[0] - m0
            if not arr.flags["C_CONTIGUOUS"]:
                obs["noncontiguous_arrays"] += 1
            if layout == "BE":
                obs["big_endian_arrays"] = obs.get("big_endian_arrays", 0) + 1
            call_coords = coords
            if rnd.random() < 0.15:
                call_coords = tuple(np.int64(c) for c in coords)
                obs["numpy_int_coords"] += 1
            if (sc["key"], coords) in model:
                obs["rewrites"] += 1
            arr_before = arr.tobytes()
            try:
                pio.write_chunk(arr, sc["key"], call_coords)
                if arr.tobytes() != arr_before:
                    v.append({"kind": "write_chunk-modified-the-array-handed-in",
                              "detail": f"{ctx}: {sc['key']} {coords} layout={layout}"})
                    break
            except Exception as exc:  # noqa: BLE001
                v.append({"kind": "valid-write-raised",
                          "detail": f"{ctx}: write {sc['key']} {coords} layout={layout}: "
                          f"{type(exc).__name__}: {str(exc)[:160]}"})
                break
            obs["write_events"] += 1
            model[(sc["key"], coords)] = np.array(arr, copy=True).astype(
                arr.dtype.newbyteorder("="))
        # ---- off-grid attempts (before close, so a stored chunk would reach the files)
        for sc in info["scales"]:
            for label, bad in _offgrid(rnd, info, sc):
                obs["offgrid_attempts"] += 1
                obs["offgrid_kinds"][label] = obs["offgrid_kinds"].get(label, 0) + 1
                n_store = tr.count("store_chunk")
                dg = shardlib.tree_digest(d)[0]
                shape = (info["num_channels"], max(1, abs(bad[5] - bad[4])),
                         max(1, abs(bad[3] - bad[2])), max(1, abs(bad[1] - bad[0])))
                arr = np.zeros(shape, dtype=info["data_type"])
                raised = None
                try:
                    pio.write_chunk(arr, sc["key"], bad)
                except Exception as exc:  # noqa: BLE001
                    raised = type(exc).__name__
                stored = tr.count("store_chunk") != n_store
                changed = shardlib.tree_digest(d)[0] != dg
                if raised is None or stored or changed:
                    v.append({"kind": "off-grid-position-not-rejected",
                              "detail": f"{ctx}: {label} coords {bad} on scale {sc['key']} "
                              f"(size {sc['size']}, chunk sizes {sc['chunk_sizes']}): "
                              f"raised={raised} reached_store_chunk={stored} "
                              f"tree_changed={changed}"})
                else:
                    obs["offgrid_rejected"] += 1
        if v:
            return {"violations": v[:6], "obs": obs}
        if h["kind"] == "sharded":
            try:
                acc.close()
            except Exception as exc:  # noqa: BLE001
                return {"violations": [{"kind": "close-raised", "detail":
                                        f"{ctx}: {type(exc).__name__}: {str(exc)[:160]}"}],
                        "obs": obs}
        # ---- reads: same handle, then a fresh handle from the URL dispatch
        fresh_acc = accessor_mod.get_accessor_for_url(
            d, {} if h["kind"] == "sharded" else {k: (not val if k == "flat" else val)
                                                  for k, val in h["opts"].items()})
        fresh = precomputed_io.get_IO_for_existing_dataset(
            fresh_acc, encoder_options=h["enc_opts"])
        if h["kind"] == "sharded" and not isinstance(
                fresh_acc, sharded_file_accessor.ShardedFileAccessor):
            v.append({"kind": "dispatch-not-sharded", "detail": ctx})
        keys = list(model)
        rnd.shuffle(keys)
        enc_of = {sc_["key"]: sc_["encoding"] for sc_ in info["scales"]}
        if len(set(enc_of.values())) > 1:
            obs["datasets_mixing_encodings_across_scales"] = 1
        for which, handle in (("same", pio), ("fresh", fresh)):
            for (key, coords) in keys:
                want = model[(key, coords)]
                try:
                    got = handle.read_chunk(key, coords)
                except Exception as exc:  # noqa: BLE001
                    v.append({"kind": "read-back-raised",
                              "detail": f"{ctx}: {which} handle, {key} {coords}: "
                              f"{type(exc).__name__}: {str(exc)[:160]}"})
                    break
                obs[f"read_checks_{which}_handle"] += 1
                got = np.asarray(got)
                if got.shape != want.shape or got.dtype != np.dtype(info["data_type"]):
                    v.append({"kind": "read-back-shape-or-dtype",
                              "detail": f"{ctx}: {which} handle, {key} {coords}: got "
                              f"{got.shape} {got.dtype}, wrote {want.shape} {want.dtype}"})
                    break
                if enc_of[key] == "raw" and which == "fresh":
                    # what is STORED for a raw scale is the array itself (little-endian,
                    # C order), whatever the other scales of the dataset use
                    stored_bytes = bytes(fresh_acc.fetch_chunk(key, coords))
                    obs["raw_chunks_compared_bytewise"] = obs.get(
                        "raw_chunks_compared_bytewise", 0) + 1
                    if stored_bytes != np.ascontiguousarray(want).astype(
                            want.dtype.newbyteorder("<")).tobytes():
                        v.append({"kind": "stored-bytes-of-a-raw-scale-are-not-the-raw-array",
                                  "detail": f"{ctx}: {key} {coords}: {len(stored_bytes)} bytes "
                                  f"stored for an array of {want.nbytes} bytes"})
                        break
                if enc_of[key] == "jpeg":
                    err = np.abs(got.astype(int) - want.astype(int))
                    obs["jpeg_max_err"] = max(obs["jpeg_max_err"], int(err.max()))
                    if err.max() > 40 or err.mean() > 5:
                        v.append({"kind": "jpeg-error-out-of-bound",
                                  "detail": f"{ctx}: {which} handle, {key} {coords}: max "
                                  f"{err.max()} mean {err.mean():.2f}"})
                        break
                else:
                    same = (got.tobytes() == np.ascontiguousarray(want).tobytes()) \
                        if want.dtype.kind == "f" else np.array_equal(got, want)
                    if not same:
                        v.append({"kind": "read-back-differs",
                                  "detail": f"{ctx}: {which} handle, {key} {coords}: "
                                  f"{int((got != want).sum())} of {want.size} values differ"})
                        break
    finally:
        shutil.rmtree(d, ignore_errors=True)
    sig = f"{h['kind']}|{enc}|{info['data_type']}|{info['num_channels']}|" \
          f"{[(s['size'], s['chunk_sizes']) for s in info['scales']]}|{h['opts']}"
    if isinstance(obs["jpeg_max_err"], int) and obs["jpeg_max_err"] == 0:
        obs.pop("jpeg_max_err")
    else:
        obs["jpeg_max_err_seen"] = [obs.pop("jpeg_max_err")]
    return {"violations": v[:6], "obs": obs,
            "sigs": [sig] if obs["write_events"] >= 2 else [],
            "sample": {"accessor": h["kind"], "options": h["opts"], "encoding": enc,
                       "data_type": info["data_type"], "channels": info["num_channels"],
                       "scales": [(s["size"], s["chunk_sizes"]) for s in info["scales"]],
                       "writes": obs["write_events"], "rewrites": obs["rewrites"],
                       "offgrid": obs["offgrid_attempts"]}}


def gates(obs, tier):
    calls = obs.get("calls", {})
    return {
        "io_layer_reached": calls.get("PrecomputedIO.write_chunk", 0) > 0
        and calls.get("PrecomputedIO.read_chunk", 0) > 0,
        "all_three_encoders": all(calls.get(k, 0) > 0 for k in REACH[3:6]),
        "file_and_sharded_accessors": len(obs.get("accessors", {})) == 2,
        "offgrid_attempts_made": obs.get("offgrid_attempts", 0) > 500,
        "offgrid_kinds": len(obs.get("offgrid_kinds", {})) >= 10,
        "fresh_handle_reads": obs.get("read_checks_fresh_handle", 0) > 1000,
        "rewrites_seen": obs.get("rewrites", 0) > 20,
        "noncontiguous_inputs": obs.get("noncontiguous_arrays", 0) > 100,
        "numpy_int_coords": obs.get("numpy_int_coords", 0) > 20,
        "info_revised_mid_history": obs.get("info_revisions", 0) > 20,
        "chunks_beyond_2_20_voxels": obs.get("chunks_over_2_20_voxels", 0) > 0,
        "big_endian_input_arrays": obs.get("big_endian_arrays", 0) > 50,
        "byte_sparse_label_palettes": obs.get("byte_sparse_label_palettes", 0) > 50,
        "datasets_mixing_encodings_across_scales": obs.get(
            "datasets_mixing_encodings_across_scales", 0) > 20,
        "raw_chunks_beginning_with_container_magic": obs.get(
            "chunks_beginning_with_container_magic", 0) > 50,
    }
