"""C04 — sharded output is readable by any reader that follows the sharded format.

Monitor: the *.shard files left on disk after ShardedFileAccessor.close() are parsed by
refs/shard_spec.py (written from sharded.md); the bytes handed to store_chunk are captured
by the boundary tracer and compared with what the reference reader retrieves.
"""
import os
import random
import shutil
import tempfile

from harness import shardlib
from harness.monitors import tracer
from harness.refs import morton_spec, shard_spec

PROPERTY = "C04"
LEVEL = "exploration"
RULE = ("case = (grid 1..9 chunks per axis from (size, cubic chunk size) incl. non-powers of "
        "two and single-chunk axes, (minishard, shard, preshift) bits 0..4(5) plus extremes "
        "beyond 64 in total, index/data encodings raw|gzip independently, data type, "
        "channels, subset kind (dense, sparse, single, only high ids, gap at start/middle/end "
        "of a minishard), random store order, buffering strategy); distinct = case signature "
        "without the order seed; non-trivial = at least two stored chunks")
ASSUMPTIONS = [
    "harness/refs/shard_spec.py is a faithful reading of sharded.md (identity hash)",
    "files are read after close(); payloads are the encoded chunks captured at the "
    "accessor boundary",
    "zero-length entries for identifiers that were never stored are allowed by the format"]
MANIFEST = {
    "level_text": "Reference-model monitoring of the on-disk effect: after the real sharded "
    "writer has stored a generated subset of a generated grid in a random order and was "
    "closed, an independent reader written only from the format specification must "
    "retrieve every stored chunk byte for byte from the file the specification names, via "
    "the minishard's own slot of the shard index, with strictly increasing ids and "
    "in-file, non-overlapping byte ranges, and there must be no shard file that no stored "
    "chunk maps to.  A contract on the Morton/routing functions stays attached during the "
    "workload.  Exploration over thousands of configurations, not a proof.",
    "level_note": "Trusted: refs/shard_spec.py and refs/morton_spec.py.  The recorded "
    "finding 'gzip encoding is a zlib stream' is tolerated by auto-detecting the stream "
    "type; everything else is still checked under the gzip settings.",
    "technique": "runtime monitoring: boundary tracer on store_chunk + independent "
    "spec-derived parser of the shard files left on disk; icontract postconditions on the "
    "identifier/routing functions",
    "design_ref": "DESIGN.md section 2, C04",
}
REACH = ["Shard.close", "MiniShard.close", "MiniShard.flush_buffer", "MiniShard.append",
         "ShardedFileAccessor.store_chunk", "ShardVolumeSpec.compressed_morton_code"]
WORKER_TIMEOUT = {"quick": 900, "thorough": 5400}
CASE_TIMEOUT = 20
KF_ZLIB = "C04-gzip-encoding-is-zlib"

DIRECTED = [
    # one minishard with 64 chunks (long minishard index)
    {"grid": [4, 4, 4], "chunk": 2, "rem": [0, 1, 0], "minishard_bits": 0, "shard_bits": 0,
     "preshift_bits": 0, "minishard_index_encoding": "raw", "data_encoding": "raw",
     "data_type": "uint8", "num_channels": 1},
    {"grid": [4, 4, 4], "chunk": 1, "rem": [0, 0, 0], "minishard_bits": 0, "shard_bits": 1,
     "preshift_bits": 6, "minishard_index_encoding": "gzip", "data_encoding": "gzip",
     "data_type": "uint16", "num_channels": 1},
    # minishards {0, 2} only
    {"grid": [2, 2, 1], "chunk": 2, "rem": [1, 1, 0], "minishard_bits": 2, "shard_bits": 0,
     "preshift_bits": 0, "minishard_index_encoding": "raw", "data_encoding": "raw",
     "data_type": "uint8", "num_channels": 1},
    {"grid": [1, 1, 1], "chunk": 4, "rem": [0, 0, 0], "minishard_bits": 1, "shard_bits": 0,
     "preshift_bits": 0, "minishard_index_encoding": "gzip", "data_encoding": "raw",
     "data_type": "uint8", "num_channels": 1},
    # more than 64 shards in one scale, two chunks per minishard
    {"grid": [16, 8, 4], "chunk": 2, "rem": [1, 1, 1], "minishard_bits": 1, "shard_bits": 7,
     "preshift_bits": 0, "minishard_index_encoding": "raw", "data_encoding": "raw",
     "data_type": "uint8", "num_channels": 1},
    # one minishard receiving more than 1 MiB of chunk data (6 x 256 KiB)
    {"grid": [3, 2, 1], "chunk": 64, "rem": [63, 63, 63], "minishard_bits": 0,
     "shard_bits": 0, "preshift_bits": 0, "minishard_index_encoding": "raw",
     "data_encoding": "raw", "data_type": "uint8", "num_channels": 1},
    # ... and more than 64 KiB
    {"grid": [3, 3, 2], "chunk": 16, "rem": [15, 15, 15], "minishard_bits": 1,
     "shard_bits": 0, "preshift_bits": 1, "minishard_index_encoding": "gzip",
     "data_encoding": "raw", "data_type": "uint16", "num_channels": 1},
    # minishards whose data exceeds the 4096-byte read size of the on-disk byte array
    {"grid": [4, 2, 2], "chunk": 8, "rem": [7, 7, 7], "minishard_bits": 1, "shard_bits": 0,
     "preshift_bits": 0, "minishard_index_encoding": "raw", "data_encoding": "raw",
     "data_type": "uint32", "num_channels": 2},
    {"grid": [3, 5, 2], "chunk": 2, "rem": [0, 1, 1], "minishard_bits": 1, "shard_bits": 13,
     "preshift_bits": 1, "minishard_index_encoding": "raw", "data_encoding": "gzip",
     "data_type": "uint32", "num_channels": 2},
    # single chunks of 2 MiB (readers that split or stream large byte ranges)
    {"grid": [2, 1, 1], "chunk": 64, "rem": [63, 63, 63], "minishard_bits": 0,
     "shard_bits": 1, "preshift_bits": 0, "minishard_index_encoding": "raw",
     "data_encoding": "raw", "data_type": "uint64", "num_channels": 1},
    # a chunk size that is not a power of two (49: positions are found by a real division)
    {"grid": [8, 2, 1], "chunk": 49, "rem": [0, 3, 48], "minishard_bits": 1, "shard_bits": 1,
     "preshift_bits": 0, "minishard_index_encoding": "raw", "data_encoding": "raw",
     "data_type": "uint8", "num_channels": 1},
    # a small border chunk stored just before a chunk of 2 MiB in the same minishard
    {"grid": [2, 2, 1], "chunk": 64, "rem": [0, 63, 63], "minishard_bits": 0,
     "shard_bits": 0, "preshift_bits": 0, "minishard_index_encoding": "raw",
     "data_encoding": "raw", "data_type": "uint64", "num_channels": 1},
]


def gen_cases(tier, seed):
    rnd = random.Random(f"C04:{seed}")
    n = 1500 if tier == "quick" else 90000
    cases = []
    for d in DIRECTED:
        for kind in ("dense", "gap_start", "gap_middle", "high", "sparse"):
            for strategy in ("on disk", "in memory"):
                cases.append({"cfg": d, "subset_kind": kind, "sseed": rnd.randrange(2 ** 32),
                              "oseed": rnd.randrange(2 ** 32), "strategy": strategy})
    for _ in range(n // 10):
        cases.append({"cfg": shardlib.gen_config_large(rnd), "subset_kind": "large",
                      "sseed": rnd.randrange(2 ** 32), "oseed": rnd.randrange(2 ** 32),
                      "strategy": rnd.choice(["on disk", "in memory"])})
    for _ in range(n):
        cases.append({"cfg": shardlib.gen_config(rnd, tier), "subset_kind": None,
                      "sseed": rnd.randrange(2 ** 32), "oseed": rnd.randrange(2 ** 32),
                      "strategy": rnd.choice(["on disk", "in memory", None])})
    return cases


def worker_init():
    from harness.monitors import contracts
    contracts.attach_routing_contracts()


def worker_obs():
    from harness.monitors import contracts
    return {"contract_evaluations": dict(contracts.COUNTS)}


def run_case(case):
    import numpy as np
    cfg = case["cfg"]
    rnd = random.Random(case["sseed"])
    if cfg.get("large"):
        kind, subset = "large", shardlib.gen_subset_large(cfg, rnd)
    else:
        kind, subset = shardlib.gen_subset(cfg, rnd, case["subset_kind"])
    order = list(subset)
    random.Random(case["oseed"]).shuffle(order)
    d = tempfile.mkdtemp(prefix="c04-")
    v = []
    prof = shardlib.gap_profile(cfg, subset) if not cfg.get("large") else {
        "start": 0, "middle": 0, "end": 0, "empty_minishard_below_populated": 0,
        "max_chunks_in_minishard": 0}
    nb = morton_spec.bits_per_axis(cfg["grid"])
    obs = {"stored_chunks": 0, "chunks_retrieved_by_spec_reader": 0, "shard_files_parsed": 0,
           "subset_kinds": {kind: 1},
           "gap_start": int(prof["start"] > 0), "gap_middle": int(prof["middle"] > 0),
           "gap_end": int(prof["end"] > 0),
           "empty_minishard_below_populated": int(prof["empty_minishard_below_populated"] > 0),
           "axes_drop_out_at_different_levels": int(len(set(nb)) > 1),
           "index_gzip": int(cfg["minishard_index_encoding"] == "gzip"),
           "data_gzip": int(cfg["data_encoding"] == "gzip"),
           "minishard_with_41_or_more_chunks": int(prof["max_chunks_in_minishard"] >= 41),
           "bits_total_over_64": int(cfg["minishard_bits"] + cfg["shard_bits"]
                                     + cfg["preshift_bits"] > 64),
           "strategies": {str(case["strategy"]): 1},
           "more_than_64_shards": int(len({morton_spec.route(
               shardlib.cmc_of(cfg, p), cfg["preshift_bits"], cfg["minishard_bits"],
               cfg["shard_bits"])[0] for p in subset}) > 64),
           "minishard_data_over_1MiB": int(cfg["chunk"] >= 64 and len(subset) >= 5),
           "identifiers_ge_2_16": int(max(shardlib.cmc_of(cfg, p) for p in subset) >= 2 ** 16),
           "identifiers_ge_2_32": int(max(shardlib.cmc_of(cfg, p) for p in subset) >= 2 ** 32),
           "identifiers_gt_2_53": int(max(shardlib.cmc_of(cfg, p) for p in subset) > 2 ** 53)}
    ctx = (f"grid {cfg['grid']} chunk {cfg['chunk']} bits(m,s,p)=({cfg['minishard_bits']},"
           f"{cfg['shard_bits']},{cfg['preshift_bits']}) enc(index,data)=("
           f"{cfg['minishard_index_encoding']},{cfg['data_encoding']}) subset={kind}"
           f"[{len(subset)}] strategy={case['strategy']}")
    try:
        try:
            enc = "jpeg" if (cfg["data_type"] == "uint8" and cfg["num_channels"] == 1
                             and case["sseed"] % 2) else "raw"
            obs["jpeg_payloads_in_gzip_shards"] = int(enc == "jpeg"
                                                      and cfg["data_encoding"] == "gzip")
            pio, acc = shardlib.open_writer(d, cfg, case["strategy"], enc)
            tr = tracer.Trace()
            tracer.trace_accessor(acc, tr)
            for pos in order:
                pio.write_chunk(shardlib.chunk_array(np, cfg, pos), "s0",
                                shardlib.coords_of(cfg, pos))
            acc.close()
            if case["oseed"] % 2 == 0:
                # the accessor's exit handler closes once more after the caller's own close
                acc.close()
                obs["closed_twice"] = 1
        except Exception as exc:  # noqa: BLE001
            v.append({"kind": "writer-raised", "detail": f"{ctx}: {type(exc).__name__}: "
                      f"{str(exc)[:200]}"})
            return {"violations": v, "obs": obs}
        stored = {}
        for ev in tr.events:
            if ev["op"] == "store_chunk":
                pos = tuple(c // cfg["chunk"] for c in ev["coords"][0::2])
                stored[shardlib.cmc_of(cfg, pos)] = ev["bytes"]
        obs["stored_chunks"] = len(stored)
        if len(stored) != len(subset):
            return {"violations": [], "harness_error": "tracer lost store events"}
        spec = shardlib.sharding_of(cfg)
        reader = shard_spec.Reader(os.path.join(d, "s0"), spec)
        expected_files = set()
        for cid, payload in sorted(stored.items()):
            expected_files.add(morton_spec.route(
                cid, cfg["preshift_bits"], cfg["minishard_bits"], cfg["shard_bits"])[2]
                + ".shard")
            try:
                got = reader.fetch(cid)
            except shard_spec.ShardSpecError as exc:
                v.append({"kind": "spec-reader-cannot-retrieve-chunk",
                          "detail": f"{ctx}: chunk id {cid}: {exc}"})
                if len(v) > 5:
                    break
                continue
            obs["chunks_retrieved_by_spec_reader"] += 1
            if got != payload:
                v.append({"kind": "spec-reader-retrieves-different-bytes",
                          "detail": f"{ctx}: chunk id {cid}: {len(got)} bytes vs stored "
                          f"{len(payload)}"})
        on_disk = set(os.listdir(os.path.join(d, "s0"))) if os.path.isdir(
            os.path.join(d, "s0")) else set()
        stray = on_disk - expected_files
        if stray:
            v.append({"kind": "stray-file-in-scale-directory",
                      "detail": f"{ctx}: {sorted(stray)[:5]} map to no stored chunk "
                      f"(expected {sorted(expected_files)[:5]})"})
        for name in sorted(on_disk & expected_files):
            try:
                sf = reader.shard_file(name[:-6])
            except shard_spec.ShardSpecError as exc:
                v.append({"kind": "shard-file-malformed", "detail": f"{ctx}: {exc}"})
                continue
            obs["shard_files_parsed"] += 1
            bad = sf.overlaps()
            if bad:
                v.append({"kind": "overlapping-byte-ranges",
                          "detail": f"{ctx}: {name}: {bad[:2]}"})
            for mini, entries in sf.minishards.items():
                ids = [e[0] for e in entries]
                if ids != sorted(set(ids)):
                    v.append({"kind": "ids-not-strictly-increasing",
                              "detail": f"{ctx}: {name} minishard {mini}: {ids[:10]}"})
                for cid, _s, size in entries:
                    r = morton_spec.route(cid, cfg["preshift_bits"], cfg["minishard_bits"],
                                          cfg["shard_bits"])
                    if r[1] != mini or r[2] + ".shard" != name:
                        v.append({"kind": "chunk-listed-in-wrong-minishard",
                                  "detail": f"{ctx}: id {cid} listed in {name} minishard "
                                  f"{mini}, specification says {r[2]}.shard minishard {r[1]}"})
                    if size and cid not in stored:
                        v.append({"kind": "unstored-chunk-has-data",
                                  "detail": f"{ctx}: id {cid} has {size} bytes but was "
                                  "never stored"})
        for note in reader.notes:
            if note == "gzip-encoding-is-a-zlib-stream":
                v.append({"kind": "gzip-encoding-is-zlib", "known": KF_ZLIB,
                          "detail": f"{ctx}: data declared 'gzip' is an RFC 1950 zlib stream"})
    finally:
        shutil.rmtree(d, ignore_errors=True)
    c = dict(cfg)
    sig = f"{sorted(c.items())}|{kind}|{case['sseed'] % 997}|{case['strategy']}"
    return {"violations": v[:12], "obs": obs, "sigs": [sig] if len(subset) >= 2 else [],
            "sample": {"cfg": cfg, "subset_kind": kind, "stored": len(subset),
                       "strategy": case["strategy"],
                       "store_order_first": [list(p) for p in order[:6]]}}


def gates(obs, tier):
    calls = obs.get("calls", {})
    ce = obs.get("contract_evaluations", {})
    return {
        "writer_reached": calls.get("ShardedFileAccessor.store_chunk", 0) > 0
        and obs.get("calls_by_module", {}).get("sharded_file_accessor", 0) > 0,
        "spec_reader_retrieved_chunks": obs.get("chunks_retrieved_by_spec_reader", 0) > 1000,
        "empty_minishard_below_populated": obs.get("empty_minishard_below_populated", 0) > 0,
        "axes_drop_out_at_different_levels": obs.get("axes_drop_out_at_different_levels", 0) > 0,
        "both_index_encodings": 0 < obs.get("index_gzip", 0),
        "both_data_encodings": 0 < obs.get("data_gzip", 0),
        "gap_start_middle_end": all(obs.get(k, 0) > 0 for k in
                                    ("gap_start", "gap_middle", "gap_end")),
        "long_minishard_index": obs.get("minishard_with_41_or_more_chunks", 0) > 0,
        "bit_totals_beyond_64": obs.get("bits_total_over_64", 0) > 0,
        "both_strategies": len(obs.get("strategies", {})) >= 2,
        "more_than_64_shards_in_a_scale": obs.get("more_than_64_shards", 0) > 0,
        "megabyte_minishards": obs.get("minishard_data_over_1MiB", 0) > 0,
        "identifiers_beyond_2_16_and_2_32": obs.get("identifiers_ge_2_16", 0) > 0
        and obs.get("identifiers_ge_2_32", 0) > 0,
        "identifiers_beyond_2_53": obs.get("identifiers_gt_2_53", 0) > 0,
        "accessors_closed_twice": obs.get("closed_twice", 0) > 100,
        "jpeg_payloads_in_gzip_shards": obs.get("jpeg_payloads_in_gzip_shards", 0) > 10,
    }
