"""C09 — chunk identifiers and shard routing follow the specification for every grid.

Monitor: return values of ShardVolumeSpec.compressed_morton_code / get_cmc,
CMCReadWrite.get_shard_key / get_minishard_key and Shard.file_path, compared with
refs/morton_spec.py (pure Python integers, written from the specification).
"""
import itertools
import random
import tempfile

from harness.refs import morton_spec

PROPERTY = "C09"
LEVEL = "exploration"
RULE = ("grid cases: every grid shape up to the tier bound is enumerated with ALL its "
        "positions (identifier == reference, injective, < 2^bits, get_cmc on chunk "
        "coordinates agrees), plus sampled grids up to 2^21 chunks per axis with corner / "
        "power-of-two±1 / random positions; every grid also gets rejection probes (each "
        "axis at exactly the grid size, beyond, negative, off-lattice).  route cases: one "
        "(preshift, minishard, shard) triple with boundary and random identifiers.  "
        "distinct = (grid, position) resp. (triple, identifier); non-trivial = grid with "
        ">= 2 chunks resp. triple with a non-zero bit count")
MANIFEST = {
    "level_text": "Reference-model monitoring of the real functions: every identifier, shard "
    "number, minishard number and shard file name returned for the explored grids/positions/"
    "bit triples is compared with a specification-derived pure-integer model; small grids "
    "(up to 8^3 quick, 12^3 thorough) are enumerated with all their positions, larger ones "
    "(up to 2^21 per axis) are sampled at corners and power-of-two boundaries. Exploration, "
    "not proof: it says nothing about grids that were not produced.",
    "level_note": "Trusted: harness/refs/morton_spec.py as a faithful reading of volume.md / "
    "sharded.md; identity hash only; rejection means any exception.",
    "technique": "runtime monitoring: return values of the real functions checked against a "
    "spec-derived reference model (exhaustive on small grids, sampled on large ones); "
    "sys.monitoring reach counters",
    "design_ref": "DESIGN.md section 2, C09",
}
ASSUMPTIONS = ["identity hash only (the only one the tool accepts)",
               "rejection = any exception; acceptance = a value is returned"]
EXHAUSTIVE = {"quick": False, "thorough": False}
REACH = ["ShardVolumeSpec.compressed_morton_code", "ShardVolumeSpec.get_cmc",
         "CMCReadWrite.get_shard_key", "CMCReadWrite.get_minishard_key"]
WORKER_TIMEOUT = {"quick": 600, "thorough": 3600}


# sizes whose reciprocal is rounded down in binary64 (k * size * (1 / size) < k for some k)
ODD_CHUNKS = [49, 98, 103, 107, 161, 187, 196, 197, 206, 214, 237, 239, 249, 253]


def gen_cases(tier, seed):
    rnd = random.Random(f"C09:{seed}")
    bound = 10 if tier == "quick" else 16
    cases = []
    for grid in itertools.product(range(1, bound + 1), repeat=3):
        # chunk sizes: the usual powers of two, and any other size (position / size is then
        # a genuine division)
        cases.append({"kind": "grid", "grid": list(grid),
                      "chunk": rnd.choice([1, 2, 3, 8, 64, rnd.randint(5, 300),
                                           rnd.randint(5, 300), rnd.choice(ODD_CHUNKS)]),
                      "rem": [rnd.random() for _ in range(3)], "mode": "all"})
    n_big = 400 if tier == "quick" else 20000
    for _ in range(n_big):
        grid = []
        for _a in range(3):
            e = rnd.choice([0, 1, 2, 3, 5, 8, 10, 13, 16, 20, 21])
            g = rnd.choice([2 ** e, max(1, 2 ** e - 1), 2 ** e + 1,
                            rnd.randint(1, 2 ** e)])
            grid.append(min(g, 2 ** 21))
        if rnd.random() < 0.3:
            # the same number of bits on all three axes (up to 21 each = 63 bits)
            e = rnd.choice([4, 8, 10, 11, 12, 16, 20, 21])
            grid = [rnd.randint(2 ** (e - 1) + 1, 2 ** e) for _ in range(3)]
            if rnd.random() < 0.5:
                grid[rnd.randrange(3)] = 2 ** e
        cases.append({"kind": "grid", "grid": grid,
                      "chunk": rnd.choice([1, 2, 32, 64, rnd.randint(5, 300),
                                           rnd.choice(ODD_CHUNKS)]),
                      "rem": [rnd.random() for _ in range(3)], "mode": "sample",
                      "pseed": rnd.randrange(2 ** 32),
                      "npos": 200 if tier == "quick" else 600})
    hi = 4 if tier == "quick" else 10
    triples = list(itertools.product(range(hi + 1), repeat=3))
    for t in [(0, 0, 64), (0, 64, 0), (64, 0, 0), (0, 0, 70), (0, 3, 70), (5, 30, 30),
              (60, 2, 2), (0, 20, 44), (3, 10, 51), (0, 1, 63), (1, 1, 62), (0, 0, 0),
              (0, 6, 15), (2, 6, 17), (9, 6, 15), (1, 0, 13), (0, 5, 1), (0, 0, 5)]:
        triples.append(t)
    for t in triples:
        cases.append({"kind": "route", "triple": list(t), "pseed": rnd.randrange(2 ** 32),
                      "nids": 80 if tier == "quick" else 400})
    # the same values seen from outside: a dataset with several sharded scales (each with its
    # own grid and its own configured triple) written through the real accessor, scales
    # interleaved; the shard files that appear must carry the names the specification
    # derives for the configured triple of THEIR scale
    for _ in range(60 if tier == "quick" else 2500):
        scs = []
        chunk = rnd.choice([1, 2, 4])
        for _k in range(rnd.choice([2, 2, 3])):
            scs.append({"grid": [rnd.randint(1, 9) for _ in range(3)],
                        "chunk": chunk if rnd.random() < 0.7 else rnd.choice([1, 2, 4]),
                        # shard bits beyond what a small grid can use: the file names
                        # keep the zero padding of the CONFIGURED number of bits
                        "triple": [rnd.randint(0, 3), rnd.randint(0, 3),
                                   rnd.choice([0, 1, 2, 3, 4, 5, 8, 9, 13, 20])]})
        cases.append({"kind": "dataset", "scales": scs, "pseed": rnd.randrange(2 ** 32)})
    cases.append({"kind": "repo_tests"})
    return cases


def _sizes(grid, chunk, rem):
    # a volume size whose grid is exactly `grid` for cubic chunks of `chunk`
    return [(g - 1) * chunk + 1 + int(r * chunk) % chunk for g, r in zip(grid, rem)]


def _call(fn, *a):
    try:
        return ("ok", fn(*a))
    except Exception as exc:  # noqa: BLE001 - rejection is any exception
        return ("exc", type(exc).__name__)


def run_grid(case):
    from neuroglancer_scripts import sharded_base
    grid, chunk = case["grid"], case["chunk"]
    sizes = _sizes(grid, chunk, case["rem"])
    v = []
    obs = {"grids": 1, "positions": 0, "rejection_probes": 0, "rejected": 0,
           "get_cmc_calls": 0}
    spec = sharded_base.ShardVolumeSpec([chunk] * 3, sizes)
    if list(spec.grid_sizes) != list(grid):
        return {"violations": [], "harness_error":
                f"grid construction wrong {spec.grid_sizes} vs {grid}"}
    nb = morton_spec.bits_per_axis(grid)
    total_bits = sum(nb)
    if case["mode"] == "all":
        positions = list(itertools.product(*(range(g) for g in grid)))
    else:
        rnd = random.Random(case["pseed"])
        positions = set()
        cands = []
        for g in grid:
            c = {0, g - 1, g // 2}
            for e in range(22):
                for d in (-1, 0, 1):
                    if 0 <= 2 ** e + d < g:
                        c.add(2 ** e + d)
            cands.append(sorted(c))
        for _ in range(case["npos"]):
            if rnd.random() < 0.5:
                positions.add(tuple(rnd.choice(c) for c in cands))
            else:
                positions.add(tuple(rnd.randrange(g) for g in grid))
        positions = sorted(positions)
    seen = {}
    for pos in positions:
        want = morton_spec.compressed_morton(grid, pos)
        st, got = _call(spec.compressed_morton_code, list(pos))
        obs["positions"] += 1
        if st != "ok":
            v.append({"kind": "valid-position-rejected",
                      "detail": f"grid {grid} pos {pos}: {got}"})
            continue
        got = int(got)
        if got != want:
            v.append({"kind": "identifier-differs-from-spec",
                      "detail": f"grid {grid} pos {pos}: got {got}, spec {want}"})
        if got >= (1 << total_bits):
            v.append({"kind": "identifier-too-large",
                      "detail": f"grid {grid} pos {pos}: {got} >= 2^{total_bits}"})
        if got in seen and seen[got] != pos:
            v.append({"kind": "identifier-collision",
                      "detail": f"grid {grid}: {pos} and {seen[got]} both map to {got}"})
        seen[got] = pos
        # the chunk-coordinate entry point
        x, y, z = (p * chunk for p in pos)
        coords = (x, min(x + chunk, sizes[0]), y, min(y + chunk, sizes[1]),
                  z, min(z + chunk, sizes[2]))
        st2, got2 = _call(spec.get_cmc, coords)
        obs["get_cmc_calls"] += 1
        if st2 != "ok" or int(got2) != want:
            v.append({"kind": "get_cmc-differs-from-spec",
                      "detail": f"grid {grid} coords {coords}: {st2} {got2}, spec {want}"})
        if obs["positions"] % 5 == 0:
            # the same position given as narrow NumPy integers (rows of a uint16 / int32
            # table of bounding boxes): the identifier is the same 64-bit number
            import numpy as np
            top = max(coords)
            ndt = np.uint8 if top < 256 else np.uint16 if top < 65536 else np.int32 \
                if top < 2 ** 31 else np.int64
            st3, got3 = _call(spec.get_cmc, tuple(ndt(c) for c in coords))
            st4, got4 = _call(spec.compressed_morton_code, np.array(pos, dtype=ndt))
            obs["narrow_numpy_coordinates"] = obs.get("narrow_numpy_coordinates", 0) + 1
            # (compressed_morton_code documents List[int] and may refuse other integer
            # types; if it answers, the answer must be the same identifier)
            if st3 != "ok" or int(got3) != want or (st4 == "ok" and int(got4) != want):
                v.append({"kind": "identifier-depends-on-the-integer-type-of-the-coordinates",
                          "detail": f"grid {grid} pos {pos} as {np.dtype(ndt).name}: get_cmc "
                          f"{st3} {got3}, compressed_morton_code {st4} {got4}, spec {want}"})
        if len(v) > 20:
            break
    # rejection probes
    probes = []
    base = [g - 1 for g in grid]
    follow = [0]

    def after_rejection(what):
        """The object answered a question it had to refuse; the next admissible question
        put to the SAME object must get the specified answer."""
        follow[0] += 1
        pos = tuple(base) if follow[0] % 2 else tuple(g // 2 for g in grid)
        want = morton_spec.compressed_morton(grid, pos)
        x, y, z = (p * chunk for p in pos)
        coords = (x, min(x + chunk, sizes[0]), y, min(y + chunk, sizes[1]),
                  z, min(z + chunk, sizes[2]))
        obs["valid_calls_right_after_a_refusal"] = obs.get(
            "valid_calls_right_after_a_refusal", 0) + 1
        if follow[0] % 3:
            st_, got_ = _call(spec.get_cmc, coords)
        else:
            st_, got_ = _call(spec.compressed_morton_code, list(pos))
        if st_ != "ok" or int(got_) != want:
            v.append({"kind": "answer-after-a-refused-call-differs-from-spec",
                      "detail": f"grid {grid} chunk {chunk}: after refusing {what}, position "
                      f"{pos} -> {st_} {got_}, spec {want}"})
    for ax in range(3):
        for val in (grid[ax], grid[ax] + 1, 2 * grid[ax] + 3, -1):
            p = list(base)
            p[ax] = val
            probes.append(("grid", p))
    probes.append(("grid", list(grid)))
    for kind, p in probes:
        obs["rejection_probes"] += 1
        st, got = _call(spec.compressed_morton_code, p)
        if st == "ok":
            v.append({"kind": "outside-position-accepted",
                      "detail": f"grid {grid}: position {p} accepted -> {int(got)}",
                      "axis_value_equals_grid": any(a == g for a, g in zip(p, grid))})
        else:
            obs["rejected"] += 1
            after_rejection(f"position {p}")
    # chunk coordinates: outside the grid, and off the lattice
    for ax in range(3):
        lo = [b * chunk for b in base]
        lo[ax] = grid[ax] * chunk
        coords = (lo[0], lo[0] + chunk, lo[1], lo[1] + chunk, lo[2], lo[2] + chunk)
        obs["rejection_probes"] += 1
        st, got = _call(spec.get_cmc, coords)
        if st == "ok":
            v.append({"kind": "outside-chunk-accepted",
                      "detail": f"grid {grid} chunk {chunk}: coords {coords} accepted"})
        else:
            obs["rejected"] += 1
            after_rejection(f"coords {coords}")
        for frac in (0.5, -0.5, 0.25):
            # lower bounds that are not whole numbers are off the lattice whatever the
            # chunk size
            lo = [float(b * chunk) for b in base]
            lo[ax] += frac
            coords = (lo[0], lo[0] + chunk, lo[1], lo[1] + chunk, lo[2], lo[2] + chunk)
            obs["rejection_probes"] += 1
            st, got = _call(spec.get_cmc, coords)
            if st == "ok":
                v.append({"kind": "off-lattice-chunk-accepted",
                          "detail": f"grid {grid} chunk {chunk}: coords {coords} accepted"})
            else:
                obs["rejected"] += 1
                after_rejection(f"coords {coords}")
        if chunk > 1:
            lo = [b * chunk for b in base]
            lo[ax] += 1
            coords = (lo[0], lo[0] + chunk, lo[1], lo[1] + chunk, lo[2], lo[2] + chunk)
            obs["rejection_probes"] += 1
            st, got = _call(spec.get_cmc, coords)
            if st == "ok":
                v.append({"kind": "off-lattice-chunk-accepted",
                          "detail": f"grid {grid} chunk {chunk}: coords {coords} accepted"})
            else:
                obs["rejected"] += 1
                after_rejection(f"coords {coords}")
    ntriv = (grid[0] * grid[1] * grid[2]) >= 2
    obs["axes_dropping_out_at_different_levels"] = int(len(set(nb)) > 1)
    obs["power_of_two_axis"] = int(any(g > 1 and g & (g - 1) == 0 for g in grid))
    obs["equal_bits_beyond_10_per_axis"] = int(len(set(nb)) == 1 and nb[0] > 10)
    return {"violations": v[:25], "evals": len(positions) + obs["rejection_probes"],
            "distinct_disjoint": len(positions) if ntriv else 0, "obs": obs,
            "sample": {"kind": "grid", "grid": grid, "chunk": chunk, "sizes": sizes,
                       "positions_checked": len(positions), "mode": case["mode"]}}


def run_route(case):
    import numpy as np
    from neuroglancer_scripts import sharded_base, sharded_file_accessor
    pre, mini, shard = case["triple"]
    rnd = random.Random(case["pseed"])
    ids = {0, 1, 2, 3, 2 ** 64 - 1, 2 ** 63, 2 ** 63 - 1, 1001, 4095, 4096}
    for e in (pre, mini, shard, pre + mini, pre + mini + shard, mini + shard):
        for d in (-1, 0, 1):
            x = (1 << min(e, 63)) + d
            if 0 <= x < 2 ** 64:
                ids.add(x)
    while len(ids) < case["nids"]:
        ids.add(rnd.getrandbits(rnd.choice([4, 8, 12, 16, 24, 32, 48, 64])))
    v = []
    obs = {"triples": 1, "route_ids": 0, "file_names": 0}
    try:
        spec = sharded_base.ShardSpec(mini, shard, preshift_bits=pre)
        rw = sharded_base.CMCReadWrite(spec)
    except Exception as exc:  # noqa: BLE001
        return {"violations": [{"kind": "valid-bit-triple-refused",
                                "detail": f"triple (preshift, minishard, shard) = "
                                f"{case['triple']}: {type(exc).__name__}: {str(exc)[:150]}"}],
                "obs": obs}
    d = tempfile.mkdtemp()
    names = set()
    for cid in sorted(ids):
        ws, wm, wstem = morton_spec.route(cid, pre, mini, shard)
        st, gs = _call(rw.get_shard_key, np.uint64(cid))
        st2, gm = _call(rw.get_minishard_key, np.uint64(cid))
        obs["route_ids"] += 1
        if st != "ok" or int(gs) != ws:
            v.append({"kind": "shard-number-differs",
                      "detail": f"triple {case['triple']} id {cid}: {st} {gs}, spec {ws}"})
        if st2 != "ok" or int(gm) != wm:
            v.append({"kind": "minishard-number-differs",
                      "detail": f"triple {case['triple']} id {cid}: {st2} {gm}, spec {wm}"})
        if st == "ok" and wstem not in names and len(names) < 40:
            names.add(wstem)
            st3, sh = _call(sharded_file_accessor.Shard, d, gs, spec)
            obs["file_names"] += 1
            import os
            if st3 != "ok" or os.path.basename(str(sh.file_path)) != wstem + ".shard":
                v.append({"kind": "shard-file-name-differs",
                          "detail": f"triple {case['triple']} shard {ws}: "
                          f"{getattr(sh, 'file_path', sh)}, spec {wstem}.shard"})
        if len(v) > 20:
            break
    import shutil
    shutil.rmtree(d, ignore_errors=True)
    ntriv = (pre + mini + shard) > 0
    obs["total_bits_over_64"] = int(pre + mini + shard > 64)
    obs["shard_bits_not_multiple_of_4"] = int(shard % 4 != 0)
    return {"violations": v[:25], "evals": len(ids),
            "distinct_disjoint": len(ids) if ntriv else 0, "obs": obs,
            "sample": {"kind": "route", "triple": case["triple"], "ids": len(ids)}}


def run_dataset(case):
    import json
    import os
    import shutil

    from neuroglancer_scripts import accessor as accessor_mod
    from neuroglancer_scripts import sharded_file_accessor
    rnd = random.Random(case["pseed"])
    top9 = tempfile.mkdtemp(prefix="c09-")
    d = os.path.join(top9, "ds")
    obs = {"datasets": 1, "dataset_chunks_stored": 0, "dataset_shard_files": 0}
    if case["pseed"] % 4 == 0:
        # the dataset location is spelled with ".." after a symbolic link to a directory
        # elsewhere; the operating system follows the link first
        os.makedirs(os.path.join(top9, "store", "area"))
        os.symlink(os.path.join(top9, "store", "area"), os.path.join(top9, "link"))
        d = os.path.join(top9, "link", "..", "ds")
        obs["dataset_spelled_with_dotdot_after_a_symlink"] = 1
    os.mkdir(d)
    v = []
    scales = []
    for i, sc in enumerate(case["scales"]):
        pre, mini, shard = sc["triple"]
        scales.append({"key": f"s{i}", "size": [g * sc["chunk"] for g in sc["grid"]],
                       "chunk_sizes": [[sc["chunk"]] * 3], "resolution": [2 ** i] * 3,
                       "voxel_offset": [0, 0, 0], "encoding": "raw",
                       "sharding": {"@type": "neuroglancer_uint64_sharded_v1",
                                    "hash": "identity", "preshift_bits": pre,
                                    "minishard_bits": mini, "shard_bits": shard,
                                    "minishard_index_encoding": "raw",
                                    "data_encoding": "raw"}})
    info = {"type": "image", "data_type": "uint8", "num_channels": 1, "scales": scales}
    ctx = "dataset " + "; ".join(f"s{i}: grid {sc['grid']} chunk {sc['chunk']} "
                                 f"(pre,mini,shard)={tuple(sc['triple'])}"
                                 for i, sc in enumerate(case["scales"]))
    try:
        with open(os.path.join(d, "info"), "w") as f:
            json.dump(info, f)
        # the scale directories are not empty: files left by another tool or an earlier
        # configuration (unpadded shard numbers, other names) lie around
        decoys = {}
        for i, sc in enumerate(case["scales"]):
            os.makedirs(os.path.join(d, f"s{i}"))
            decoys[i] = set()
            if rnd.random() < 0.5:
                for name in ("0.shard", "1.shard", "5.shard", "a.shard", "README", "00.shard"):
                    width = -(-sc["triple"][2] // 4)
                    if len(name.split(".")[0]) != width:
                        with open(os.path.join(d, f"s{i}", name), "wb"):
                            pass
                        decoys[i].add(name)
                obs["scale_directories_with_foreign_files"] = obs.get(
                    "scale_directories_with_foreign_files", 0) + 1
        acc = accessor_mod.get_accessor_for_url(d)
        if not isinstance(acc, sharded_file_accessor.ShardedFileAccessor):
            return {"violations": [{"kind": "dispatch-not-sharded", "detail": ctx}],
                    "obs": obs, "evals": 1}
        todo = []
        for i, sc in enumerate(case["scales"]):
            allpos = list(itertools.product(*(range(g) for g in sc["grid"])))
            for pos in rnd.sample(allpos, min(len(allpos), 12)):
                todo.append((i, pos))
        rnd.shuffle(todo)
        expected = {}
        for i, pos in todo:
            sc = case["scales"][i]
            c = sc["chunk"]
            coords = (pos[0] * c, (pos[0] + 1) * c, pos[1] * c, (pos[1] + 1) * c,
                      pos[2] * c, (pos[2] + 1) * c)
            acc.store_chunk(bytes([i + 1]) * (c ** 3), f"s{i}", coords)
            obs["dataset_chunks_stored"] += 1
            cid = morton_spec.compressed_morton(sc["grid"], pos)
            _s, _m, stem = morton_spec.route(cid, *sc["triple"])
            expected.setdefault(i, set()).add(stem + ".shard")
        acc.close()
        for i in expected:
            have = {n for n in os.listdir(os.path.join(d, f"s{i}")) if n.endswith(".shard")
                    and not (n in decoys[i] and os.path.getsize(
                        os.path.join(d, f"s{i}", n)) == 0)}
            obs["dataset_shard_files"] += len(have)
            if have != expected[i]:
                v.append({"kind": "shard-files-differ-from-the-names-prescribed-for-the-"
                          "configured-triple", "detail": f"{ctx}: scale s{i}: unexpected "
                          f"{sorted(have - expected[i])[:4]}, missing "
                          f"{sorted(expected[i] - have)[:4]}"})
    except Exception as exc:  # noqa: BLE001
        v.append({"kind": "dataset-write-raised",
                  "detail": f"{ctx}: {type(exc).__name__}: {str(exc)[:160]}"})
    finally:
        shutil.rmtree(top9, ignore_errors=True)
    return {"violations": v[:6], "obs": obs, "evals": max(1, obs["dataset_chunks_stored"]),
            "distinct_disjoint": obs["dataset_chunks_stored"],
            "sample": {"kind": "dataset", "scales": case["scales"]}}


def _repo_tests(prop_obs_key):
    """The repository's own unit tests as one more workload for the contracts (child process,
    contracts attached through sitecustomize)."""
    import os
    import tempfile

    from harness import cli
    fd, report = tempfile.mkstemp(prefix="repotests-", suffix=".jsonl")
    os.close(fd)
    try:
        rc, summary, broken = cli.run_repo_tests(report)
        rep = cli.read_report(report)
    finally:
        os.unlink(report)
    obs = {"repo_test_runs_under_contracts": 1,
           "repo_tests_contract_evaluations": rep["child_contract_evaluations"],
           "repo_tests_summary": [summary[:100]]}
    v = []
    if broken:
        v.append({"kind": "contract-broken-while-the-repository's-own-tests-ran",
                  "detail": " | ".join(b[:200] for b in broken)})
    return {"violations": v, "obs": obs, "evals": 1, "sigs": [],
            "sample": {"kind": "repo_tests", "summary": summary[:100]}}


def run_case(case):
    if case.get("kind") == "repo_tests":
        return _repo_tests("c09")
    if case["kind"] == "dataset":
        return run_dataset(case)
    return run_grid(case) if case["kind"] == "grid" else run_route(case)


def gates(obs, tier):
    calls = obs.get("calls", {})
    return {
        "morton_function_reached": calls.get("ShardVolumeSpec.compressed_morton_code", 0) > 0,
        "routing_functions_reached": calls.get("CMCReadWrite.get_shard_key", 0) > 0
        and calls.get("CMCReadWrite.get_minishard_key", 0) > 0,
        "all_rejection_probes_answered": obs.get("rejection_probes", 0) > 0,
        "valid_calls_right_after_a_refusal": obs.get("valid_calls_right_after_a_refusal", 0) > 100,
        "axes_drop_out_at_different_levels": obs.get(
            "axes_dropping_out_at_different_levels", 0) > 0,
        "power_of_two_grids": obs.get("power_of_two_axis", 0) > 0,
        "cubic_grids_beyond_1024_per_axis": obs.get("equal_bits_beyond_10_per_axis", 0) > 0,
        "totals_beyond_64_bits": obs.get("total_bits_over_64", 0) > 0,
        "shard_bits_not_multiple_of_4": obs.get("shard_bits_not_multiple_of_4", 0) > 0,
        "routing_contracts_evaluated_under_the_repository_tests": obs.get(
            "repo_tests_contract_evaluations", {}).get("get_shard_key", 0) > 0,
        "multi_scale_datasets_written_through_the_accessor": obs.get(
            "dataset_shard_files", 0) > 100,
    }
