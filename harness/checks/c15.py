"""C15 — slice stacks are assembled with the requested anatomical orientation.

Monitor: decoded full-resolution chunks written by the real slice conversion are re-read
through a fresh accessor, reassembled and compared voxel by voxel with an explicit
index-mapping reference written from the documentation of the 3-letter code (no moveaxis).
"""
import itertools
import json
import os
import random
import shutil
import subprocess
import sys
import tempfile

from harness import shardlib

PROPERTY = "C15"
LEVEL = "exploration"
RULE = ("case = (one of ALL 48 orientation codes) x (stack size 1..9 per axis: slice counts "
        "smaller than, equal to and not a multiple of the chunk depth; width != height != "
        "depth) x chunk sizes 1..5 per axis x (1-3 channel directories | RGB slices) x "
        "(uint8 | uint16; PNG | TIFF) x (flat|deep, gzip on/off in-process; sharded and a "
        "sample through the command line).  Every tier covers every code several times.  "
        "distinct = case signature; non-trivial = more than one slice group or chunk")
ASSUMPTIONS = [
    "meaning of the code (from the command's help text): 1st letter = anatomical direction "
    "of increasing column index, 2nd = of increasing row index, 3rd = of increasing slice "
    "number; output axes are R, A, S; L/P/I reverse the axis",
    "slices are read in lexicographic file-name order"]
MANIFEST = {
    "level_text": "End-to-end reference monitoring of the real slice conversion for all 48 "
    "orientation codes: the dataset written on disk is re-read through a fresh accessor and "
    "compared voxel by voxel with an index-mapping model (axis permutation and reversal per "
    "letter, channels in order); slice counts below, equal to and not divisible by the chunk "
    "depth, multi-channel and RGB inputs, two pixel types and file formats, all storage "
    "options.  The 48 codes are enumerated completely in every run; the other dimensions "
    "are sampled.",
    "level_note": "Trusted: Pillow/tifffile for writing the test slices; the index mapping "
    "in this module.",
    "technique": "runtime monitoring: end-to-end differential of the produced dataset "
    "against an explicit index-mapping reference model (all 48 codes enumerated)",
    "design_ref": "DESIGN.md section 2, C15",
}
REACH = ["slices_to_raw_chunks", "convert_slices_in_directory", "load_z_stack"]
WORKER_TIMEOUT = {"quick": 900, "thorough": 5400}
CASE_TIMEOUT = 300
AX = {"R": (0, +1), "L": (0, -1), "A": (1, +1), "P": (1, -1), "S": (2, +1), "I": (2, -1)}
CODES = ["".join(p) for t in itertools.product("LR", "AP", "IS")
         for p in itertools.permutations(t)]
EXHAUSTIVE = {"quick": False, "thorough": False}


def gen_cases(tier, seed):
    rnd = random.Random(f"C15:{seed}")
    reps = 9 if tier == "quick" else 90
    cases = []
    for code in CODES:
        for r in range(reps):
            cs = [rnd.choice([1, 2, 3, 4, 5]) for _ in range(3)]
            insize = [rnd.randint(1, 9) for _ in range(3)]
            storage = rnd.choice(["flat", "deep", "gzip", "flatgzip", "sharded"])
            cases.append({"code": code, "insize": insize, "chunk": cs,
                          "channels": rnd.choice(["1", "1", "2", "3", "rgb", "rgb+1", "1+rgb",
                                                  "rgb+rgb"]),
                          "naming": rnd.choice(["padded", "padded", "plain", "mixed"]),
                          "dtype": rnd.choice(["uint8", "uint8", "uint16", "int16", "uint64"]),
                          "fmt": rnd.choice(["png", "png", "tif"]),
                          "storage": storage,
                          "slice_rel": r % 3,   # 0: fewer than, 1: equal to, 2: not a multiple
                          "cli": storage == "sharded" or rnd.random() < 0.05,
                          "vseed": rnd.randrange(2 ** 32)})
    # directed: 16-bit stacks in which some sections were saved as 8-bit files, and stacks
    # whose directories differ in pixel depth (the generator below keys both on vseed % 3)
    for k, code in enumerate(rnd.sample(CODES, 12)):
        cases.append({"code": code, "insize": [rnd.randint(2, 6), rnd.randint(2, 6),
                                               rnd.randint(3, 7)],
                      "chunk": [rnd.choice([2, 3, 4]) for _ in range(3)],
                      "channels": "1" if k < 8 else "2", "naming": "padded",
                      "dtype": "uint16", "fmt": rnd.choice(["png", "tif"]),
                      "storage": rnd.choice(["flat", "gzip"]), "slice_rel": 2, "cli": False,
                      "vseed": 3 * rnd.randrange(2 ** 30) + (0 if k < 8 else 1)})
    # directed: long stacks (more than 256 slices of tiny images), several slice groups
    for code in rnd.sample(CODES, 6 if tier == "quick" else 24):
        cases.append({"code": code, "insize": [3, 2, 300], "chunk": [64, 64, 64],
                      "naming": rnd.choice(["padded", "plain", "plain"]),
                      "channels": "1", "dtype": "uint8", "fmt": "png", "storage": "flat",
                      "slice_rel": 3, "cli": False, "vseed": rnd.randrange(2 ** 32)})
    # directed: wide / tall slices (more than 256 pixels along one image axis)
    for code in rnd.sample(CODES, 6 if tier == "quick" else 24):
        cases.append({"code": code, "insize": rnd.choice([[300, 3, 5], [2, 270, 4]]),
                      "chunk": [64, 64, 64], "channels": rnd.choice(["1", "rgb"]),
                      "dtype": "uint8", "fmt": "png", "storage": "deep", "slice_rel": 3,
                      "cli": False, "vseed": rnd.randrange(2 ** 32)})
    return cases


def expected(np, stack, code):
    """stack[c, slice, row, col] -> (out[c, z, y, x], size [X, Y, Z])"""
    C, ns, nr, ncol = stack.shape
    insize = (ncol, nr, ns)
    size = [0, 0, 0]
    for i, letter in enumerate(code):
        size[AX[letter][0]] = insize[i]
    grids = np.meshgrid(np.arange(size[2]), np.arange(size[1]), np.arange(size[0]),
                        indexing="ij")          # z, y, x index grids
    ras = {0: grids[2], 1: grids[1], 2: grids[0]}
    idx = []
    for i, letter in enumerate(code):
        a, s = AX[letter]
        idx.append(ras[a] if s > 0 else insize[i] - 1 - ras[a])
    col, row, sl = idx
    return stack[:, sl, row, col], size


def run_case(case):
    import numpy as np
    import PIL.Image
    from neuroglancer_scripts import accessor as accessor_mod
    from neuroglancer_scripts import precomputed_io
    from neuroglancer_scripts.scripts import slices_to_precomputed as s2p
    code = case["code"]
    cs = list(case["chunk"])
    ncol, nr, ns = case["insize"]
    # depth of a slice group = chunk size along the output axis of the slice direction
    depth = cs[AX[code[2]][0]]
    if case["slice_rel"] == 0:
        ns = max(1, depth - 1)
    elif case["slice_rel"] == 3:
        ns = case["insize"][2]
    elif case["slice_rel"] == 1:
        ns = depth
    else:
        ns = depth * random.Random(case["vseed"]).randint(1, 3) + max(1, depth // 2) \
            if depth > 1 else 3
    sharded = case["storage"] == "sharded"
    if sharded:
        cs = [cs[0]] * 3
    layout = {"1": ["g"], "2": ["g", "g"], "3": ["g", "g", "g"], "rgb": ["rgb"],
              "rgb+1": ["rgb", "g"], "1+rgb": ["g", "rgb"], "rgb+rgb": ["rgb", "rgb"]}[
        case["channels"]]
    rgb = "rgb" in layout
    ndirs = len(layout)
    C = sum(3 if k == "rgb" else 1 for k in layout)
    dt = np.dtype("uint8" if rgb else case["dtype"])
    fmt = "png" if (rgb or dt == np.uint8) else case["fmt"]
    g = np.random.default_rng(case["vseed"])
    out_dt = dt
    if dt == np.uint64:
        fmt = "tif"          # 64-bit label slices (TIFF only, written with tifffile)
    if dt == np.int16:
        # signed pixels (TIFF) stored into an unsigned or a float32 dataset: negative pixels
        # saturate at 0 resp. are kept (the conversion rule of the chunk type converter)
        fmt = "tif"
        out_dt = np.dtype("uint16" if case["vseed"] % 2 else "float32")
        stack = g.integers(-400, 400, size=(C, ns, nr, ncol)).astype(dt)
    else:
        stack = g.integers(0, np.iinfo(dt).max, size=(C, ns, nr, ncol), dtype=dt,
                           endpoint=True)
    narrow = set()
    if dt == np.uint16 and case["vseed"] % 3 == 0 and ns >= 2:
        # a stack that mixes pixel types: dim sections saved as 8-bit files among 16-bit ones
        r_ = random.Random(case["vseed"])
        narrow = set(r_.sample(range(ns), r_.randint(1, ns - 1)))
        for i in narrow:
            stack[:, i] &= 0xFF
    narrow_dirs = set()
    if dt == np.uint16 and not narrow and ndirs >= 2:
        # directories of different pixel depth, the narrowest first
        narrow_dirs = {0}
        stack[0] &= 0xFF
    top = tempfile.mkdtemp(prefix="c15-")
    obs = {"conversions": 0, "stacks_mixing_8_and_16_bit_slices": int(bool(narrow)),
           "directories_of_different_pixel_depth": int(bool(narrow_dirs)), "codes": {code: 1}, "voxels_compared": 0,
           "slice_groups": {"fewer": int(ns < depth), "equal": int(ns == depth),
                            "partial_last": int(ns > depth and ns % depth != 0)},
           "more_than_256_slices": int(ns > 256),
           "more_than_256_pixels": int(ncol > 256 or nr > 256),
           "reversed_slice_axis": int(code[2] in "LPI"), "rgb": int(rgb),
           "multi_dir": int(ndirs > 1), "rgb_followed_by_another_directory": int(
               "rgb" in layout[:-1]),
           "uint64_slices": int(dt == np.uint64),
           "unpadded_names_with_10_or_more_slices": int(
               case.get("naming", "padded") != "padded" and ns >= 11), "uint16": int(dt == np.uint16), "tiff": int(fmt == "tif"),
           "cli_runs": 0, "storage": {case["storage"]: 1}}
    v = []
    try:
        dirs = []
        # file names: the documentation promises lexicographic order of the names
        naming = case.get("naming", "padded")
        if naming == "padded":
            names = [f"slice_{i:04d}" for i in range(ns)]
        elif naming == "plain":
            names = sorted(f"slice_{i}" for i in range(ns))      # slice_10 < slice_2
        else:
            names = sorted([f"s{i}" for i in range(ns // 2)]
                           + [f"S_{i:02d}x" for i in range(ns - ns // 2)])
        ch0 = 0
        for d, kind_ in enumerate(layout):
            # directory names are NOT in lexicographic order: channels follow the order in
            # which the directories are given
            p = os.path.join(top, ["z_first[1]", "m_sec*nd", "a_th?rd"][d] if d < 3 else f"in{d}")
            if d == 0:
                # a sibling directory whose name the first one matches as a shell pattern,
                # holding other images of the same geometry
                decoy = os.path.join(top, "z_first1")
                os.makedirs(decoy)
                for i_ in range(ns):
                    PIL.Image.fromarray(np.full((nr, ncol), 77, dtype=np.uint8)).save(
                        os.path.join(decoy, f"slice_{i_:04d}.png"))
            os.makedirs(p)
            dirs.append(p)
            for i in range(ns):
                if kind_ == "rgb":
                    img = PIL.Image.fromarray(np.moveaxis(stack[ch0:ch0 + 3, i], 0, -1))
                elif dt in (np.int16, np.uint64):
                    import tifffile
                    tifffile.imwrite(os.path.join(p, f"{names[i]}.{fmt}"), stack[ch0, i])
                    continue
                else:
                    img = PIL.Image.fromarray(stack[ch0, i].astype(np.uint8)
                                              if (i in narrow or d in narrow_dirs)
                                              else stack[ch0, i])
                img.save(os.path.join(p, f"{names[i]}.{fmt}"))
            ch0 += 3 if kind_ == "rgb" else 1
            if case["vseed"] % 5 == 2 and ns >= 2:
                # the slice directory holds symbolic links; the files they point to live
                # elsewhere under names that sort differently (the order is that of the
                # names IN the slice directory)
                raw_dir = os.path.join(top, f"raw{d}")
                os.makedirs(raw_dir)
                entries = sorted(os.listdir(p))
                for j, name in enumerate(entries):
                    target = os.path.join(raw_dir, f"section_{len(entries) - j:04d}_{name}")
                    os.rename(os.path.join(p, name), target)
                    os.symlink(target, os.path.join(p, name))
                obs["slice_directories_of_symbolic_links"] = 1
        exp, size = expected(np, stack, code)
        if out_dt != dt:
            exp = (np.clip(exp, 0, 65535) if out_dt.kind == "u" else exp).astype(out_dt)
            obs["signed_pixels_into_other_type"] = 1
        dest = os.path.join(top, "out")
        os.makedirs(dest)
        info = {"type": "image", "data_type": out_dt.name, "num_channels": C,
                "scales": [{"key": "k", "size": size, "chunk_sizes": [cs], "encoding": "raw",
                            "resolution": [1, 1, 1], "voxel_offset": [0, 0, 0]}]}
        if sharded:
            cfg = shardlib.gen_config(random.Random(case["vseed"]), "quick")
            info["scales"][0]["sharding"] = shardlib.sharding_of(cfg)
        if out_dt.name == "uint8" and C in (1, 3) and case["vseed"] % 3 == 0:
            # the info describes a pyramid whose coarser scale uses another (lossy) encoding;
            # the slices go into the first scale, with ITS encoding
            info["scales"].append({"key": "k_half", "size": [-(-s_ // 2) for s_ in size],
                                   "chunk_sizes": [cs], "encoding": "jpeg",
                                   "resolution": [2, 2, 2], "voxel_offset": [0, 0, 0]})
            obs["pyramid_infos_with_a_lossy_coarser_scale"] = 1
        with open(os.path.join(dest, "info"), "w") as f:
            json.dump(info, f)
        ctx = (f"code {code} stack(col,row,slice)=({ncol},{nr},{ns}) chunk {cs} channels "
               f"{case['channels']} names={case.get('naming', 'padded')} {dt.name} {fmt} "
               f"{case['storage']}")
        opts = {"gzip": case["storage"] in ("gzip", "flatgzip"),
                "flat": case["storage"] in ("flat", "flatgzip")}
        err = None
        if case["cli"]:
            argv = [sys.executable, "-W", "ignore", "-m",
                    "neuroglancer_scripts.scripts.slices_to_precomputed", *dirs, dest,
                    "--input-orientation", code if random.Random(case["vseed"]).random() < 0.7
                    else code.lower()]
            if not opts["gzip"] and not sharded:
                argv.append("--no-gzip")
            if opts["flat"] and not sharded:
                argv.append("--flat")
            cli_env = dict(os.environ, TQDM_DISABLE="1")
            if case["vseed"] % 2:
                cli_env["PYTHONIOENCODING"] = "ascii"     # output not in UTF-8
                obs["cli_runs_with_ascii_output"] = 1
            p = subprocess.run(argv, capture_output=True, text=True, timeout=240, env=cli_env)
            obs["cli_runs"] = 1
            if p.returncode != 0:
                err = f"exit status {p.returncode}: {p.stderr.strip().splitlines()[-1:]}"
        else:
            from pathlib import Path
            try:
                if case["vseed"] % 2:
                    s2p.convert_slices_in_directory([Path(d) for d in dirs], dest, code,
                                                    options=opts)
                else:
                    # library entry point with lists owned by the caller: they are inputs
                    # and may be used again (here: the same conversion into a second
                    # directory, which must give the same dataset)
                    lists = [sorted(Path(d).iterdir()) for d in dirs]
                    keep = [list(x) for x in lists]
                    s2p.slices_to_raw_chunks(lists, dest, code, options=opts)
                    obs["library_calls_with_caller_lists"] = 1
                    if lists != keep:
                        v.append({"kind": "caller-file-lists-modified",
                                  "detail": f"{ctx}: the slice file lists passed in were "
                                  "re-ordered by the call"})
            except Exception as exc:  # noqa: BLE001
                err = f"{type(exc).__name__}: {str(exc)[:160]}"
        if err:
            return {"violations": [{"kind": "conversion-failed",
                                    "detail": f"{ctx}: {err}"}], "obs": obs}
        obs["conversions"] = 1
        pio = precomputed_io.get_IO_for_existing_dataset(
            accessor_mod.get_accessor_for_url(dest))
        got = np.zeros_like(exp)
        X, Y, Z = size
        for x, y, z in itertools.product(range(0, X, cs[0]), range(0, Y, cs[1]),
                                         range(0, Z, cs[2])):
            c = (x, min(x + cs[0], X), y, min(y + cs[1], Y), z, min(z + cs[2], Z))
            try:
                got[:, c[4]:c[5], c[2]:c[3], c[0]:c[1]] = pio.read_chunk("k", c)
            except Exception as exc:  # noqa: BLE001
                return {"violations": [{"kind": "chunk-missing-or-unreadable",
                                        "detail": f"{ctx}: {c}: {type(exc).__name__}: "
                                        f"{str(exc)[:100]}"}], "obs": obs}
        obs["voxels_compared"] = int(exp.size)
        if not np.array_equal(got, exp):
            bad = np.argwhere(got != exp)
            c_, z_, y_, x_ = (int(q) for q in bad[0])
            v.append({"kind": "voxel-differs-from-designated-pixel",
                      "detail": f"{ctx}: {len(bad)} of {exp.size} voxels differ; e.g. channel "
                      f"{c_} RAS voxel (x,y,z)=({x_},{y_},{z_}) holds {got[c_, z_, y_, x_]} "
                      f"instead of {exp[c_, z_, y_, x_]}"})
    finally:
        shutil.rmtree(top, ignore_errors=True)
    sig = "|".join(str(x) for x in (code, ncol, nr, ns, cs, case["channels"], dt.name, fmt,
                                    case["storage"]))
    nontrivial = ns > depth or (size[0] > cs[0] or size[1] > cs[1] or size[2] > cs[2])
    return {"violations": v, "obs": obs, "sigs": [sig] if nontrivial else [],
            "sample": {"code": code, "stack_col_row_slice": [ncol, nr, ns], "chunk": cs,
                       "channels": case["channels"], "dtype": dt.name, "fmt": fmt,
                       "storage": case["storage"]}}


def gates(obs, tier):
    calls = obs.get("calls", {})
    sg = obs.get("slice_groups", {})
    return {
        "conversion_reached": calls.get("slices_to_raw_chunks", 0) > 0
        or calls.get("convert_slices_in_directory", 0) > 0,
        "all_48_codes": len(obs.get("codes", {})) == 48,
        "slice_counts_below_equal_and_partial": all(sg.get(k, 0) > 0 for k in
                                                    ("fewer", "equal", "partial_last")),
        "rgb_and_multi_directory": obs.get("rgb", 0) > 0 and obs.get("multi_dir", 0) > 0,
        "pyramid_infos_with_a_lossy_coarser_scale": obs.get(
            "pyramid_infos_with_a_lossy_coarser_scale", 0) > 5,
        "uint16_and_tiff": obs.get("uint16", 0) > 0 and obs.get("tiff", 0) > 0,
        "stacks_mixing_8_and_16_bit_slices": obs.get(
            "stacks_mixing_8_and_16_bit_slices", 0) > 5,
        "directories_of_different_pixel_depth": obs.get(
            "directories_of_different_pixel_depth", 0) > 0,
        "cli_runs_with_ascii_output": obs.get("cli_runs_with_ascii_output", 0) > 10,
        "uint64_label_slices": obs.get("uint64_slices", 0) > 10,
        "slice_directories_of_symbolic_links": obs.get(
            "slice_directories_of_symbolic_links", 0) > 10,
        "signed_pixels_with_negative_values": obs.get("signed_pixels_into_other_type", 0) > 20,
        "all_storage_options": len(obs.get("storage", {})) == 5,
        "command_line_runs": obs.get("cli_runs", 0) > 10,
        "stacks_longer_than_256_slices": obs.get("more_than_256_slices", 0) > 0,
        "rgb_directory_followed_by_another": obs.get(
            "rgb_followed_by_another_directory", 0) > 0,
        "library_entry_point_with_caller_lists": obs.get(
            "library_calls_with_caller_lists", 0) > 20,
        "unpadded_slice_names": obs.get("unpadded_names_with_10_or_more_slices", 0) > 0,
        "slices_wider_than_256_pixels": obs.get("more_than_256_pixels", 0) > 0,
    }
