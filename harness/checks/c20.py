"""C20 — reported statistics match the dataset that is actually produced.

Monitors: (1) return value of readable_count parsed back to a number and compared with the
argument (exact integer/rational arithmetic); (2) stdout of scale-stats parsed and compared
with (a) the chunks the conversion code really wrote (class-level tracer on
PrecomputedIO.write_chunk, files / minishard-index entries on disk), (b) the summed nbytes of
all chunks decoded back, (c) exact Python-integer arithmetic for very large infos.
"""
import contextlib
import copy
import io
import itertools
import json
import os
import random
import re
import shutil
import tempfile
from fractions import Fraction

from harness import shardlib
from harness.refs import shard_spec

PROPERTY = "C20"
LEVEL = "exploration"
RULE = ("readable_count cases: integers p*1024^k + d for p in {1, 2, 5, 9.94..10.01, "
        "99.4..100.1, 999..1000.1, 1023, 1023.5, 1024}, |d| <= 64, k = 0..6, plus log-uniform "
        "values up to 2^70 and a few floats; stats cases: (a) real datasets produced by the "
        "conversion code (volume conversion + pyramid, or convert-chunks towards an info with "
        "two chunk_sizes entries, unsharded and sharded), (b) infos with sizes up to 10^9 per "
        "axis checked with integer arithmetic.  distinct = distinct counts resp. distinct "
        "infos; non-trivial = count >= 1000 resp. info with >= 2 chunks")
ASSUMPTIONS = [
    "readable_count: parsed back value within half a unit of the last printed digit of the "
    "true value, plus true*2^-52 (counts above 2^53 are divided in floating point)",
    "'at least two significant digits' is not demanded when the printed value is exact "
    "(e.g. '5 ')", "the directory counts printed by scale-stats are not part of the property"]
MANIFEST = {
    "level_text": "Oracle monitoring: (1) hundreds of thousands of counts around every "
    "power-of-1024 boundary and up to 2^70 are formatted by the real readable_count and "
    "parsed back (length, significant digits, rounding distance); (2) the real scale-stats "
    "output is parsed and compared with what the real conversion code wrote (write tracer, "
    "files and minishard-index entries on disk, decoded bytes) and with exact integer "
    "arithmetic for infos far beyond what can be materialised.  Exploration.",
    "level_note": "Trusted: the parser of the documented output format in this module; "
    "refs/shard_spec.py for counting chunks inside shards.",
    "technique": "runtime monitoring: output of the real functions parsed and checked by an "
    "exact-arithmetic oracle; write tracer + on-disk census for the produced dataset",
    "design_ref": "DESIGN.md section 2, C20",
}
REACH = ["readable_count", "show_scales_info", "show_scale_file_info"]
WORKER_TIMEOUT = {"quick": 900, "thorough": 5400}
CASE_TIMEOUT = 300
PFX = {"": 1, "ki": 2 ** 10, "Mi": 2 ** 20, "Gi": 2 ** 30, "Ti": 2 ** 40, "Pi": 2 ** 50,
       "Ei": 2 ** 60}
_WRITES = []


def gen_cases(tier, seed):
    rnd = random.Random(f"C20:{seed}")
    vals = set()
    for k in range(0, 7):
        for p in (1, 2, 5, 9.94, 9.949, 9.95, 9.951, 9.96, 9.99, 10, 10.01, 99.4, 99.49,
                  99.5, 99.51, 99.6, 100, 100.1, 999, 999.4, 999.5, 999.6, 1000, 1000.1, 1010,
                  1023, 1023.5, 1023.99, 1024):
            c = int(p * 1024 ** k)
            for d in range(-64, 65):
                vals.add(max(0, c + d))
    nrand = 150000 if tier == "quick" else 8000000
    for _ in range(nrand):
        vals.add(int(2 ** rnd.uniform(0, 70)))
    vals = sorted(vals)
    cases = []
    step = 4000
    for i in range(0, len(vals), step):
        cases.append({"kind": "rc", "values": vals[i:i + step]})
    cases.append({"kind": "rc", "values": [0, 1, 999, 1000, 1023, 1024],
                  "floats": [1e10, 512.0, 1536.0, 9.96 * 1024, 2.5e15, 1e3, 0.0]})
    nbig = 300 if tier == "quick" else 6000
    for _ in range(nbig):
        nsc = rnd.randint(1, 4)
        scales = []
        for i in range(nsc):
            size = [max(1, int(10 ** rnd.uniform(0, rnd.choice([3, 6, 9])))) for _ in range(3)]
            css = [[rnd.choice([1, 2, 16, 64, 100, 128, 512]) for _ in range(3)]
                   for _ in range(rnd.choice([1, 1, 2]))]
            if len(css) == 2 and css[0] == css[1]:
                css = css[:1]
            sc = {"key": f"s{i}", "size": size, "chunk_sizes": css, "encoding": "raw",
                  "resolution": [1, 1, 1], "voxel_offset": [0, 0, 0]}
            if rnd.random() < 0.3:
                sc["sharding"] = {"@type": "neuroglancer_uint64_sharded_v1", "hash": "identity",
                                  "minishard_bits": rnd.randint(0, 6),
                                  "shard_bits": rnd.randint(0, 12), "preshift_bits": 0,
                                  "minishard_index_encoding": "raw", "data_encoding": "raw"}
            scales.append(sc)
        cases.append({"kind": "stats_big", "info": {
            "type": "image", "data_type": rnd.choice(["uint8", "uint16", "uint32", "uint64",
                                                      "float32"]),
            "num_channels": rnd.choice([1, 1, 3, 4]), "scales": scales}})
    nreal = 64 if tier == "quick" else 2500
    for _ in range(nreal):
        cases.append({"kind": "stats_real", "rseed": rnd.randrange(2 ** 32),
                      "route": rnd.choice(["pyramid", "pyramid", "convert2", "sharded",
                                            "slices"])})
    return cases


def worker_init():
    from neuroglancer_scripts import precomputed_io
    orig = precomputed_io.PrecomputedIO.write_chunk

    def traced(self, chunk, scale_key, chunk_coords):
        _WRITES.append((scale_key, tuple(int(c) for c in chunk_coords), int(chunk.nbytes)))
        return orig(self, chunk, scale_key, chunk_coords)
    precomputed_io.PrecomputedIO.write_chunk = traced


def _check_count(n, s):
    """-> None or (kind, message)"""
    m = re.fullmatch(r"([0-9][0-9,]*)(?:\.([0-9]+))? (|ki|Mi|Gi|Ti|Pi|Ei)", s)
    if not m:
        return "unparseable", f"readable_count({n}) = {s!r}"
    ip, fp, pf = m.group(1).replace(",", ""), m.group(2) or "", m.group(3)
    val = Fraction(int(ip + fp), 10 ** len(fp)) * PFX[pf]
    unit = Fraction(PFX[pf], 10 ** len(fp))
    true = Fraction(n)
    if abs(val - true) > unit / 2 + true / 2 ** 52:
        return "not-within-rounding-distance", \
            f"readable_count({n}) = {s!r} stands for {float(val)!r}"
    digits = (ip + fp).lstrip("0")
    if val != true and len(digits) < 2:
        return "fewer-than-two-significant-digits", f"readable_count({n}) = {s!r}"
    if n <= 2 ** 60 and len(s) > 6:
        return "longer-than-six-characters", f"readable_count({n}) = {s!r}"
    return None


def run_rc(case):
    from neuroglancer_scripts.utils import readable_count
    v = []
    obs = {"counts_formatted": 0, "beyond_2_60": 0, "prefixes": {}}
    items = list(case["values"]) + list(case.get("floats", []))
    for n in items:
        try:
            s = readable_count(n)
        except Exception as exc:  # noqa: BLE001
            v.append({"kind": "readable_count-raised",
                      "detail": f"readable_count({n!r}): {type(exc).__name__}: {exc}"})
            continue
        obs["counts_formatted"] += 1
        if n > 2 ** 60:
            obs["beyond_2_60"] += 1
        bad = _check_count(n, s) if isinstance(s, str) else ("not-a-string", repr(s))
        if isinstance(s, str):
            pf = s.split(" ")[-1]
            obs["prefixes"][pf or "none"] = obs["prefixes"].get(pf or "none", 0) + 1
        if bad:
            v.append({"kind": bad[0], "detail": bad[1]})
        if len(v) > 10:
            break
        if isinstance(n, int) and obs["counts_formatted"] % 7 == 0 and not bad:
            # the same count held in a fixed-width NumPy integer (sizes and products taken
            # from arrays): the same text
            import numpy as np
            for ndt in (np.int64, np.uint64, np.int32, np.uint32, np.int16):
                if n <= np.iinfo(ndt).max:
                    try:
                        s2 = readable_count(ndt(n))
                    except Exception as exc:  # noqa: BLE001
                        s2 = f"{type(exc).__name__}: {exc}"
                    obs["numpy_integer_counts"] = obs.get("numpy_integer_counts", 0) + 1
                    if s2 != s:
                        v.append({"kind": "text-depends-on-the-integer-type-of-the-count",
                                  "detail": f"readable_count({n}) = {s!r}, but "
                                  f"readable_count(numpy.{np.dtype(ndt).name}({n})) = {s2!r}"})
                        break
    return {"violations": v, "evals": len(items),
            "distinct_disjoint": sum(1 for n in case["values"] if n >= 1000), "obs": obs,
            "sample": {"kind": "readable_count", "values": items[:5], "n": len(items)}}


LINE = re.compile(r"Scale (?P<key>\S+), (?P<shard>[^,]+), chunk size \[(?P<cs>[^\]]+)\]: "
                  r"(?P<n>[0-9,]+) chunks, (?P<d>[0-9,]+) directories, raw uncompressed size "
                  r"(?P<size>.+)B$")
TOTAL = re.compile(r"Total: (?P<n>[0-9,]+) chunks, (?P<d>[0-9,]+) directories, raw "
                   r"uncompressed size (?P<size>.+)B$")


class StatsMisuse(Exception):
    pass


def _run_stats(info):
    """The report is produced twice from the caller's own info object, which must come
    back unchanged (it is the PrecomputedIO's description of the dataset)."""
    from neuroglancer_scripts.scripts import scale_stats
    mine = copy.deepcopy(info)
    outs = []
    for _ in range(2):
        buf = io.StringIO()
        with contextlib.redirect_stdout(buf):
            scale_stats.show_scales_info(mine)
        outs.append(buf.getvalue())
    if mine != info:
        raise StatsMisuse("show_scales_info modified the info dictionary it was given")
    if outs[0] != outs[1]:
        raise StatsMisuse("a second report on the same info differs from the first")
    return outs[0]


def _parse(out):
    rows, total = [], None
    for line in out.splitlines():
        m = LINE.match(line.strip())
        if m:
            rows.append({"key": m["key"], "cs": [int(x) for x in m["cs"].split(",")],
                         "n": int(m["n"].replace(",", "")), "size": m["size"]})
        m = TOTAL.match(line.strip())
        if m:
            total = {"n": int(m["n"].replace(",", "")), "size": m["size"]}
    return rows, total


def _size_ok(text, true):
    m = re.fullmatch(r"([0-9][0-9,]*)(?:\.([0-9]+))? (|ki|Mi|Gi|Ti|Pi|Ei)", text)
    if not m:
        return False
    ip, fp, pf = m.group(1).replace(",", ""), m.group(2) or "", m.group(3)
    val = Fraction(int(ip + fp), 10 ** len(fp)) * PFX[pf]
    unit = Fraction(PFX[pf], 10 ** len(fp))
    return abs(val - true) <= unit / 2 + Fraction(true) / 2 ** 52


def _compare(info, out, expect_chunks, expect_bytes, v, ctx):
    """expect_chunks: {(key, tuple(cs)): n}; expect_bytes: {(key, tuple(cs)): bytes}"""
    rows, total = _parse(out)
    want_rows = [(s["key"], tuple(cs)) for s in info["scales"] for cs in s["chunk_sizes"]]
    if [(r["key"], tuple(r["cs"])) for r in rows] != want_rows or total is None:
        v.append({"kind": "stats-output-unparseable-or-incomplete",
                  "detail": f"{ctx}: rows {[(r['key'], r['cs']) for r in rows]} for "
                  f"{want_rows}; output {out[:200]!r}"})
        return
    for r in rows:
        k = (r["key"], tuple(r["cs"]))
        if r["n"] != expect_chunks[k]:
            v.append({"kind": "reported-chunk-count-differs",
                      "detail": f"{ctx}: scale {k}: reported {r['n']:,d} chunks, the dataset "
                      f"has {expect_chunks[k]:,d}"})
        if not _size_ok(r["size"], expect_bytes[k]):
            v.append({"kind": "reported-size-differs",
                      "detail": f"{ctx}: scale {k}: reported {r['size']!r}B, decoded data is "
                      f"{expect_bytes[k]:,d} bytes"})
    if total["n"] != sum(expect_chunks.values()):
        v.append({"kind": "reported-total-chunk-count-differs",
                  "detail": f"{ctx}: total {total['n']:,d} vs {sum(expect_chunks.values()):,d}"})
    if not _size_ok(total["size"], sum(expect_bytes.values())):
        v.append({"kind": "reported-total-size-differs",
                  "detail": f"{ctx}: total {total['size']!r}B vs "
                  f"{sum(expect_bytes.values()):,d} bytes"})


def run_big(case):
    info = case["info"]
    itemsize = {"uint8": 1, "uint16": 2, "uint32": 4, "uint64": 8, "float32": 4}[
        info["data_type"]]
    v = []
    obs = {"stats_runs": 1, "huge_infos": 0}
    ctx = f"info {[(s['size'], s['chunk_sizes']) for s in info['scales']]} " \
          f"{info['data_type']}x{info['num_channels']}"
    try:
        out = _run_stats(info)
    except StatsMisuse as exc:
        return {"violations": [{"kind": "scale-stats-state", "detail": f"{ctx}: {exc}"}],
                "obs": obs}
    except Exception as exc:  # noqa: BLE001
        return {"violations": [{"kind": "scale-stats-raised",
                                "detail": f"{ctx}: {type(exc).__name__}: {str(exc)[:200]}"}],
                "obs": obs}
    ec, eb = {}, {}
    for s in info["scales"]:
        for cs in s["chunk_sizes"]:
            n = 1
            for a in range(3):
                n *= -(-s["size"][a] // cs[a])
            ec[(s["key"], tuple(cs))] = n
            eb[(s["key"], tuple(cs))] = (s["size"][0] * s["size"][1] * s["size"][2]
                                         * itemsize * info["num_channels"])
    if sum(eb.values()) > 2 ** 63:
        obs["huge_infos"] = 1
    _compare(info, out, ec, eb, v, ctx)
    return {"violations": v[:5], "obs": obs,
            "sigs": [ctx] if sum(ec.values()) >= 2 else [],
            "sample": {"kind": "stats_big", "scales": [(s["size"], s["chunk_sizes"])
                                                       for s in info["scales"]]}}


def run_real(case):
    import nibabel
    import numpy as np
    from neuroglancer_scripts import accessor as accessor_mod
    from neuroglancer_scripts import precomputed_io
    from neuroglancer_scripts.scripts import (convert_chunks, scale_stats,
                                              volume_to_precomputed_pyramid)
    rnd = random.Random(case["rseed"])
    top = tempfile.mkdtemp(prefix="c20-")
    obs = {"stats_runs": 1, "real_datasets": 1, "chunks_counted_by_tracer": 0,
           "chunks_counted_on_disk": 0, "bytes_decoded": 0, "routes": {case["route"]: 1}}
    v = []
    try:
        shape = [rnd.randint(3, 90) for _ in range(3)]
        if rnd.random() < 0.4:
            shape[rnd.randrange(3)] = rnd.randint(129, 200)     # three chunks along one axis
        dt = rnd.choice(["uint8", "uint16", "float32", "uint32"])
        arr = np.random.default_rng(case["rseed"]).integers(0, 200, size=shape).astype(dt)
        fn = os.path.join(top, "v.nii")
        # (two distinct voxel sizes at most: three distinct ones are the recorded C08 finding)
        vy, vz = rnd.choice([(1., 1.), (1., 2.), (1., 4.), (1., 0.25), (2., 2.), (2., 1.),
                             (4., 4.)])
        nibabel.save(nibabel.Nifti1Image(arr, np.diag([1., vy, vz, 1.])), fn)
        d1 = os.path.join(top, "ds")
        del _WRITES[:]
        if case["route"] == "slices":
            # a stack of 2-D slices in any of the 48 orientations, converted into a scale
            # with non-cubic chunks (the slice axis is any of the three output axes)
            import pathlib

            import PIL.Image
            from harness.checks.c15 import AX, CODES
            from neuroglancer_scripts.scripts import slices_to_precomputed
            shape = [rnd.randint(3, 40) for _ in range(3)]
            cs = [rnd.choice([2, 4, 8, 16]) for _ in range(3)]
            code = rnd.choice(CODES)
            dt = "uint8"
            info = {"type": "image", "data_type": dt, "num_channels": 1,
                    "scales": [{"key": "full", "size": shape, "chunk_sizes": [cs],
                                "encoding": "raw", "resolution": [1, 1, 1],
                                "voxel_offset": [0, 0, 0]}]}
            os.makedirs(d1)
            with open(os.path.join(d1, "info"), "w") as f:
                json.dump(info, f)
            ncol, nrow, nsl = (shape[AX[letter][0]] for letter in code)
            sd = os.path.join(top, "slices")
            os.makedirs(sd)
            g = np.random.default_rng(case["rseed"])
            for i in range(nsl):
                PIL.Image.fromarray(g.integers(0, 200, (nrow, ncol)).astype("uint8")).save(
                    os.path.join(sd, f"s{i:04d}.png"))
            obs["slice_stacks_with_noncubic_chunks"] = int(len(set(cs)) > 1)
            slices_to_precomputed.convert_slices_in_directory(
                [pathlib.Path(sd)], d1, code,
                options={"flat": rnd.random() < 0.5, "gzip": rnd.random() < 0.5})
        else:
            volume_to_precomputed_pyramid.volume_to_precomputed_pyramid(
                fn, d1, options={"flat": rnd.random() < 0.5, "gzip": rnd.random() < 0.5})
            with open(os.path.join(d1, "info")) as f:
                info = json.load(f)
        dataset = d1
        if case["route"] in ("convert2", "sharded"):
            # source written through the I/O layer with the grids convert-chunks will walk
            # (it reads the source with the destination's chunk coordinates)
            from neuroglancer_scripts import file_accessor
            d1 = os.path.join(top, "src")
            d2 = os.path.join(top, "dst")
            os.makedirs(d2)
            scales = []
            for i in range(rnd.choice([1, 2])):
                size = [rnd.randint(3, 40) for _ in range(3)]
                c = rnd.choice([4, 8, 16])
                if case["route"] == "convert2":
                    css = [[c, c, rnd.choice([2, 4, 8])], [max(1, c // 2), c, c * 2]]
                else:
                    css = [[c, c, c]]
                scales.append({"key": f"s{i}", "size": size, "chunk_sizes": css,
                               "encoding": "raw", "resolution": [2 ** i] * 3,
                               "voxel_offset": [0, 0, 0]})
            info = {"type": "image", "data_type": dt, "num_channels": rnd.choice([1, 2]),
                    "scales": scales}
            src_io = precomputed_io.get_IO_for_new_dataset(
                info, file_accessor.FileAccessor(d1, flat=True, gzip=False))
            for sc in scales:
                X, Y, Z = sc["size"]
                vol = np.random.default_rng(case["rseed"]).integers(
                    0, 200, size=(info["num_channels"], Z, Y, X)).astype(dt)
                for cs in sc["chunk_sizes"]:
                    for x, y, z in itertools.product(range(0, X, cs[0]), range(0, Y, cs[1]),
                                                     range(0, Z, cs[2])):
                        c = (x, min(x + cs[0], X), y, min(y + cs[1], Y), z, min(z + cs[2], Z))
                        src_io.write_chunk(vol[:, c[4]:c[5], c[2]:c[3], c[0]:c[1]],
                                           sc["key"], c)
            info2 = copy.deepcopy(info)
            if case["route"] == "sharded":
                cfg = shardlib.gen_config(rnd, "quick")
                for sc in info2["scales"]:
                    sc["sharding"] = shardlib.sharding_of(cfg)
            with open(os.path.join(d2, "info"), "w") as f:
                json.dump(info2, f)
            del _WRITES[:]
            convert_chunks.convert_chunks(d1, d2, options={"flat": True, "gzip": False})
            info = info2
            dataset = d2
            if case["route"] == "sharded":
                # flush the shards (done by the atexit handler in a real process)
                import gc
                from neuroglancer_scripts import sharded_file_accessor
                for o in gc.get_objects():
                    if isinstance(o, sharded_file_accessor.ShardedFileAccessor) \
                            and str(o.base_dir) == d2:
                        o.close()
        ctx = f"{case['route']} volume {shape} {dt} scales " \
              f"{[(s['size'], s['chunk_sizes']) for s in info['scales']]}"
        # (a) what the conversion code wrote
        ec, eb = {}, {}
        for s in info["scales"]:
            for cs in s["chunk_sizes"]:
                grid = {(x, min(x + cs[0], s["size"][0]), y, min(y + cs[1], s["size"][1]),
                         z, min(z + cs[2], s["size"][2]))
                        for x, y, z in itertools.product(range(0, s["size"][0], cs[0]),
                                                         range(0, s["size"][1], cs[1]),
                                                         range(0, s["size"][2], cs[2]))}
                wrote = {c for k, c, _ in _WRITES if k == s["key"] and c in grid}
                ec[(s["key"], tuple(cs))] = len(wrote)
                obs["chunks_counted_by_tracer"] += len(wrote)
        # (b) census on disk + decoded bytes through a fresh accessor
        acc = accessor_mod.get_accessor_for_url(dataset)
        pio = precomputed_io.get_IO_for_existing_dataset(acc)
        for s in info["scales"]:
            for cs in s["chunk_sizes"]:
                nbytes, ndisk = 0, 0
                for x, y, z in itertools.product(range(0, s["size"][0], cs[0]),
                                                 range(0, s["size"][1], cs[1]),
                                                 range(0, s["size"][2], cs[2])):
                    c = (x, min(x + cs[0], s["size"][0]), y, min(y + cs[1], s["size"][1]),
                         z, min(z + cs[2], s["size"][2]))
                    try:
                        nbytes += pio.read_chunk(s["key"], c).nbytes
                        ndisk += 1
                    except Exception:  # noqa: BLE001
                        pass
                eb[(s["key"], tuple(cs))] = nbytes
                obs["chunks_counted_on_disk"] += ndisk
                obs["bytes_decoded"] += nbytes
                if ndisk != ec[(s["key"], tuple(cs))]:
                    v.append({"kind": "harness-census-mismatch", "detail":
                              f"{ctx}: tracer {ec[(s['key'], tuple(cs))]} vs readable {ndisk}"})
            if "sharding" in s:
                rd = shard_spec.Reader(os.path.join(dataset, s["key"]), s["sharding"])
                n_idx = 0
                sdir = os.path.join(dataset, s["key"])
                for name in (os.listdir(sdir) if os.path.isdir(sdir) else []):
                    sf = rd.shard_file(name[:-6])
                    n_idx += sum(1 for e in sf.minishards.values() for x in e if x[2] > 0)
                if n_idx != ec[(s["key"], tuple(s["chunk_sizes"][0]))]:
                    v.append({"kind": "harness-census-mismatch", "detail":
                              f"{ctx}: {n_idx} minishard-index entries"})
        buf = io.StringIO()
        with contextlib.redirect_stdout(buf):
            scale_stats.show_scale_file_info(dataset)
        _compare(info, buf.getvalue(), ec, eb, v, ctx)
    finally:
        shutil.rmtree(top, ignore_errors=True)
    return {"violations": v[:5], "obs": obs, "sigs": [ctx],
            "sample": {"kind": "stats_real", "route": case["route"], "shape": shape,
                       "scales": [(s["key"], s["size"], s["chunk_sizes"])
                                  for s in info["scales"]]}}


def run_case(case):
    return {"rc": run_rc, "stats_big": run_big, "stats_real": run_real}[case["kind"]](case)


def gates(obs, tier):
    calls = obs.get("calls", {})
    return {
        "functions_reached": calls.get("readable_count", 0) > 0
        and calls.get("show_scales_info", 0) > 0 and calls.get("show_scale_file_info", 0) > 0,
        "all_prefixes_seen": len(obs.get("prefixes", {})) == 7,
        "counts_beyond_2_60": obs.get("beyond_2_60", 0) > 100,
        "counts_held_in_numpy_integers": obs.get("numpy_integer_counts", 0) > 1000,
        "huge_infos": obs.get("huge_infos", 0) > 5,
        "real_datasets_all_routes": len(obs.get("routes", {})) == 4,
        "slice_stacks_with_noncubic_chunks": obs.get("slice_stacks_with_noncubic_chunks", 0) > 2,
        "tracer_and_census_agree_nonzero": obs.get("chunks_counted_by_tracer", 0) > 50
        and obs.get("chunks_counted_on_disk", 0) == obs.get("chunks_counted_by_tracer", 0),
    }
