"""C14 — reading over HTTP gives the same bytes as reading the files locally.

Monitors: bytes / exceptions returned by accessors created with get_accessor_for_url on an
http:// URL served by the loopback server of harness/httpd.py, compared with what the local
accessors return for the same directory; the server's request log (methods, Range headers,
statuses) is evidence; scripted faults per request index must surface as errors.
"""
import json
import os
import random
import shutil
import tempfile

from harness import httpd, shardlib

PROPERTY = "C14"
LEVEL = "exploration"
RULE = ("case = dataset kind (plain flat | plain deep+gzip behind the documented URL rewrite "
        "| sharded .shard | sharded legacy .index/.data | mixed sharded/unsharded scales) x "
        "random grid / chunk size / data type / sharding triple / encodings, two scales; "
        "every info and chunk is compared for 3 URL spellings (with / without trailing slash, "
        "precomputed:// prefix); then fault scripts: for each server behaviour (404, 500, 503, "
        "short 206, over-long 206, 200 ignoring Range, connection dropped mid-body, connection "
        "refused) placed at the 1st, 2nd, ... matching request of a fetch.  distinct = "
        "(dataset signature, url spelling) resp. (dataset, fault, position); non-trivial = "
        "dataset with >= 2 chunks")
ASSUMPTIONS = [
    "the test server implements the nginx configuration quoted in docs/serving-data.rst; "
    "sharded files are served without Content-Encoding and with Range support",
    "a stalling server is not among the listed behaviours (the accessor has no time-outs): "
    "the test server always shuts the socket down; a per-case watchdog guards the run",
    "under a fault that the server really injected the call must raise (DataAccessError for "
    "plain datasets, any exception for sharded ones); it must never return bytes"]
MANIFEST = {
    "level_text": "Differential monitoring against a real HTTP server on the loopback "
    "interface: generated datasets (plain, rewritten deep+gzip, sharded, legacy split, "
    "mixed) are written by the real writers, served as static files, and every info file "
    "and chunk fetched through the accessor that get_accessor_for_url returns for the URL "
    "is compared byte-wise with the local accessor's answer; the dispatch class is checked "
    "against the info; scripted server faults at every request position of a fetch must "
    "surface as errors.  The server's request log is part of the evidence.",
    "level_note": "Trusted: harness/httpd.py as an implementation of the documented server "
    "configuration; local accessors as the reference (they are checked by C03/C05/C12); "
    "harness/refs/shard_spec.rewrite_interleaved as a producer of the shard layout other "
    "writers of the format use (its output is read back by the specification-only reader).",
    "technique": "runtime monitoring: differential HTTP-vs-local oracle with a scripted "
    "fault-injecting loopback server and request-log evidence",
    "design_ref": "DESIGN.md section 2, C14",
}
REACH = ["HttpAccessor.fetch_file", "HttpAccessor.fetch_chunk", "HttpAccessor.file_exists",
         "ShardedHttpAccessor.fetch_chunk", "HttpShard.read_bytes", "HttpShard.file_exists",
         "HttpShard.fetch_cmc_chunk"]
WORKER_TIMEOUT = {"quick": 1200, "thorough": 7200}
CASE_TIMEOUT = 180
FAULTS = ["404", "500", "502", "503", "short", "long", "ignore-range", "drop"]


def gen_cases(tier, seed):
    rnd = random.Random(f"C14:{seed}")
    n = 160 if tier == "quick" else 3000
    cases = []
    for k in range(n):
        cases.append({"kind": rnd.choice(["flat", "deepgz", "shard", "shard", "legacy",
                                          "mixed"]),
                      "dseed": rnd.randrange(2 ** 32)})
    # a few chunks of grids with up to 2^21 chunks per axis (identifiers beyond 2^53)
    for k in range(6 if tier == "quick" else 60):
        cases.append({"kind": ("shard", "legacy")[k % 2], "dseed": rnd.randrange(2 ** 32),
                      "large": True})
    # one minishard with 64 chunks (long minishard index, read through Range requests)
    cases.append({"kind": "shard", "dseed": 1, "directed_cfg": 0})
    cases.append({"kind": "legacy", "dseed": 2, "directed_cfg": 0})
    # more than 64 shards; 256 KiB chunks in a 1.5 MiB minishard; > 4 KiB minishards
    cases.append({"kind": "shard", "dseed": 3, "directed_cfg": 4})
    cases.append({"kind": "shard", "dseed": 4, "directed_cfg": 5})
    cases.append({"kind": "legacy", "dseed": 5, "directed_cfg": 7})
    # chunks of 2 MiB read through Range requests
    cases.append({"kind": "shard", "dseed": 6, "directed_cfg": 9})
    return cases


def _positions(c):
    return list(c["_subset"]) if "_subset" in c else shardlib.all_positions(c)


def _build(np, case, root):
    """Write the dataset below root/ds with the real writers.  -> (info, cfgs)"""
    from neuroglancer_scripts import file_accessor, precomputed_io, sharded_file_accessor
    from harness.checks.c04 import DIRECTED
    rnd = random.Random(case["dseed"])
    kind = case["kind"]
    d = os.path.join(root, "ds")
    if "directed_cfg" in case:
        cfg = dict(DIRECTED[case["directed_cfg"]])
    else:
        cfg = shardlib.gen_config(rnd, "quick")
    cfgs = [cfg, dict(cfg)]
    if case.get("large"):
        from harness.refs import morton_spec
        cfgs = []
        while len(cfgs) < 2:
            c = shardlib.gen_config_large(rnd)
            if sum(morton_spec.bits_per_axis(c["grid"])) >= 54:
                c["_subset"] = shardlib.gen_subset_large(c, rnd, n=10)
                cfgs.append(c)
        cfg = cfgs[0]
        cfgs[1]["data_type"] = cfg["data_type"]
    # second scale: other grid, same sharding parameters (same shard numbers occur again) -
    # or, in a third of the datasets, sharding parameters of its own (sharding is a
    # property of each scale; optional members may be left out in one scale only)
    if not case.get("large"):
        cfgs[1]["grid"] = [max(1, g // 2) for g in cfg["grid"]]
        cfgs[1]["rem"] = [0, 0, 0]
    if "directed_cfg" not in case and not case.get("large") and rnd.random() < 0.35:
        other = shardlib.gen_config(rnd, "quick")
        for k in ("minishard_bits", "shard_bits", "preshift_bits", "minishard_index_encoding",
                  "data_encoding", "omit_default_keys"):
            cfgs[1][k] = other[k]
    scales = []
    for i, c in enumerate(cfgs):
        sc = shardlib.info_of(c, key=f"s{i}", sharded=kind in ("shard", "legacy")
                              or (kind == "mixed" and i == 0))["scales"][0]
        scales.append(sc)
    info = {"type": "image", "data_type": cfg["data_type"],
            "num_channels": cfg["num_channels"], "scales": scales}
    if kind in ("shard", "legacy"):
        acc = sharded_file_accessor.ShardedFileAccessor(d)
    elif kind == "deepgz":
        acc = file_accessor.FileAccessor(d, flat=False, gzip=True)
    else:
        acc = file_accessor.FileAccessor(d, flat=True, gzip=False)
    from harness.monitors import tracer
    tr = tracer.Trace()
    tracer.trace_accessor(acc, tr)
    if kind == "mixed":
        # scale 0 sharded, scale 1 plain: written by two accessors into one directory
        pio_plain = precomputed_io.get_IO_for_new_dataset(json.loads(json.dumps(info)), acc)
        sh = sharded_file_accessor.ShardedFileAccessor(d)
        tracer.trace_accessor(sh, tr)
        one = json.loads(json.dumps(info))
        one["scales"] = one["scales"][:1]
        sh.info = one
        pio_sh = precomputed_io.PrecomputedIO(one, sh)
        for pos in _positions(cfgs[0]):
            pio_sh.write_chunk(shardlib.chunk_array(np, cfgs[0], pos), "s0",
                               shardlib.coords_of(cfgs[0], pos))
        sh.close()
        for pos in _positions(cfgs[1]):
            pio_plain.write_chunk(shardlib.chunk_array(np, cfgs[1], pos, 1), "s1",
                                  shardlib.coords_of(cfgs[1], pos))
    else:
        pio = precomputed_io.get_IO_for_new_dataset(json.loads(json.dumps(info)), acc)
        for i, c in enumerate(cfgs):
            pos_list = _positions(c)
            rnd.shuffle(pos_list)
            for pos in pos_list:
                pio.write_chunk(shardlib.chunk_array(np, c, pos, i), f"s{i}",
                                shardlib.coords_of(c, pos))
        if hasattr(acc, "close"):
            acc.close()
    _build.foreign_layout = False
    if kind in ("shard", "legacy") and case["dseed"] % 3 == 0:
        # the same dataset as another writer of the format lays it out: each minishard's
        # data followed by its own index, minishards in another order, unused bytes between
        from harness.refs import shard_spec
        for sc in scales:
            sd = os.path.join(d, sc["key"])
            for fn in (os.listdir(sd) if os.path.isdir(sd) else []):
                if fn.endswith(".shard"):
                    shard_spec.rewrite_interleaved(os.path.join(sd, fn), sc["sharding"])
                    _build.foreign_layout = True
    if kind == "legacy":
        for i in range(2):
            n = 16 * (1 << cfgs[i]["minishard_bits"])
            sd = os.path.join(d, f"s{i}")
            for fn in os.listdir(sd):
                p = os.path.join(sd, fn)
                with open(p, "rb") as f:
                    b = f.read()
                with open(p[:-6] + ".index", "wb") as f:
                    f.write(b[:n])
                with open(p[:-6] + ".data", "wb") as f:
                    f.write(b[n:])
                os.remove(p)
    stored = {(e["key"], e["coords"]): e["bytes"] for e in tr.events
              if e["op"] == "store_chunk"}
    return info, cfgs, stored


def run_case(case):
    import numpy as np
    from neuroglancer_scripts import accessor as accessor_mod
    from neuroglancer_scripts import (file_accessor, http_accessor, precomputed_io,
                                      sharded_file_accessor, sharded_http_accessor)
    from neuroglancer_scripts.accessor import DataAccessError
    top = tempfile.mkdtemp(prefix="c14-")
    kind = case["kind"]
    obs = {"datasets": {kind: 1}, "chunk_comparisons": 0, "info_comparisons": 0,
           "url_spellings": 0, "fault_cases": 0, "faults_injected_by_server": 0,
           "fault_modes": {}, "fault_outcomes": {}, "requests": {}, "range_requests": 0,
           "refused_connection_cases": 0, "exists_checks": 0}
    v = []
    srv = None
    try:
        info, cfgs, stored = _build(np, case, top)
        obs["datasets_in_another_writers_shard_layout"] = int(_build.foreign_layout)
        obs["datasets_with_identifiers_beyond_2_53"] = int(bool(case.get("large")))
        srv = httpd.StaticServer(top)
        local_dir = os.path.join(top, "ds")
        local = accessor_mod.get_accessor_for_url(local_dir)
        all_sharded = kind in ("shard", "legacy")
        ctx = (f"{kind} grid {cfgs[0]['grid']} chunk {cfgs[0]['chunk']} "
               f"{cfgs[0]['data_type']}x{cfgs[0]['num_channels']} bits(m,s,p)=("
               f"{cfgs[0]['minishard_bits']},{cfgs[0]['shard_bits']},"
               f"{cfgs[0]['preshift_bits']}) enc=({cfgs[0]['minishard_index_encoding']},"
               f"{cfgs[0]['data_encoding']})"
               + (" interleaved-layout" if _build.foreign_layout else ""))
        chunks = [(f"s{i}", shardlib.coords_of(c, pos)) for i, c in enumerate(cfgs)
                  for pos in _positions(c)]
        if kind == "mixed":
            # the dispatch must be plain; only the unsharded scale is readable that way
            chunks = [ch for ch in chunks if ch[0] == "s1"]
            local = file_accessor.FileAccessor(local_dir, flat=True, gzip=False)
        # reference = what the local accessor returns; the bytes captured when the dataset
        # was written stand in when the local reader itself fails (that is C05/C12's
        # business and is only counted here)
        want = {ch: stored[ch] for ch in chunks}
        with open(os.path.join(local_dir, "info"), "rb") as f:
            want_info = f.read()
        try:
            if local.fetch_file("info") != want_info or any(
                    bytes(local.fetch_chunk(*ch)) != want[ch] for ch in chunks):
                obs["local_reference_failed"] = 1
        except Exception as exc:  # noqa: BLE001
            obs["local_reference_failed"] = 1
            obs["local_reference_error"] = [f"{type(exc).__name__}: {str(exc)[:80]}"]
        # the same directory is also served under names that need percent-escapes in a URL
        srv.httpd.aliases = {"my data": "ds", "donn\u00e9es+v1": "ds", "brain.sharded": "ds",
                             "v1.shard.d": "ds"}
        # the fault scripts run against a URL with user information (a token, no password)
        # for a third of the datasets
        fault_url = f"{srv.base}/ds"
        if case["dseed"] % 3 == 0:
            fault_url = srv.base.replace("http://", "http://t0ken@") + "/ds"
            obs["fault_runs_on_a_url_with_user_information"] = 1
        elif case["dseed"] % 3 == 1:
            fault_url = f"{srv.base}/ds?access_token=abc123"
            obs["fault_runs_on_a_url_with_a_query_string"] = 1
        for url in (f"{srv.base}/ds", f"{srv.base}/ds/", f"precomputed://{srv.base}/ds",
                    f"{srv.base}/my%20data", f"{srv.base}/donn%C3%A9es%2Bv1/",
                    f"{srv.base}/ds?rev=3", f"{srv.base}/ds/#top",
                    f"{srv.base}/brain.sharded", f"{srv.base}/v1.shard.d/",
                    srv.base.replace("http://", "http://t0ken@") + "/ds"):
            obs["url_spellings"] += 1
            obs["percent_escaped_urls"] = obs.get("percent_escaped_urls", 0) + ("%" in url)
            try:
                h = accessor_mod.get_accessor_for_url(url)
            except Exception as exc:  # noqa: BLE001
                v.append({"kind": "http-accessor-creation-raised",
                          "detail": f"{ctx} url={url}: {type(exc).__name__}: {exc}"})
                break
            is_sh = isinstance(h, sharded_http_accessor.ShardedHttpAccessor)
            if is_sh != all_sharded or not isinstance(h, http_accessor.HttpAccessor):
                v.append({"kind": "wrong-dispatch",
                          "detail": f"{ctx} url={url}: got {type(h).__name__}, info declares "
                          f"sharding on {'all' if all_sharded else 'not all'} scales"})
                break
            try:
                got_info = h.fetch_file("info")
            except Exception as exc:  # noqa: BLE001
                got_info = exc
            obs["info_comparisons"] += 1
            if got_info != want_info:
                v.append({"kind": "info-differs-over-http", "detail": f"{ctx} url={url}"})
            # precomputed-IO level as well (decoding path)
            order = list(chunks)
            random.Random(case["dseed"]).shuffle(order)
            for ch in order:
                try:
                    got = h.fetch_chunk(*ch)
                except Exception as exc:  # noqa: BLE001
                    v.append({"kind": "chunk-fetch-over-http-raised",
                              "detail": f"{ctx} url={url} chunk {ch}: {type(exc).__name__}: "
                              f"{str(exc)[:140]}"})
                    break
                obs["chunk_comparisons"] += 1
                if bytes(got) != want[ch]:
                    v.append({"kind": "chunk-differs-over-http",
                              "detail": f"{ctx} url={url} chunk {ch}: {len(got)} bytes over "
                              f"HTTP, {len(want[ch])} locally"})
                    break
            if v:
                break
            # existence probes
            for name, expect in (("info", True), ("no-such-file", False)):
                obs["exists_checks"] += 1
                try:
                    if bool(h.file_exists(name)) != expect:
                        v.append({"kind": "file_exists-differs", "detail": f"{ctx} {name}"})
                except Exception as exc:  # noqa: BLE001
                    v.append({"kind": "file_exists-raised",
                              "detail": f"{ctx} {name}: {type(exc).__name__}: {exc}"})
            # a missing chunk must be an error
            missing = ("s0" if kind != "mixed" else "s1", (10 ** 6, 10 ** 6 + 1, 0, 1, 0, 1))
            try:
                r = h.fetch_chunk(*missing)
                v.append({"kind": "missing-chunk-returned-data",
                          "detail": f"{ctx}: {len(r)} bytes for a chunk outside the volume"})
            except Exception as exc:  # noqa: BLE001
                if not all_sharded and not isinstance(exc, DataAccessError):
                    v.append({"kind": "missing-resource-wrong-error-class",
                              "detail": f"{ctx}: {type(exc).__name__}"})
        # ---- fault scripts
        if not v:
            rnd = random.Random(case["dseed"] + 1)
            targets = rnd.sample(chunks, min(len(chunks), 3))
            for ch in targets:
                for mode in FAULTS:
                    positions = [0] if not all_sharded else [0, 1, 2]
                    for skip in positions:
                        h = accessor_mod.get_accessor_for_url(fault_url)
                        srv.arm(mode, "/" + ch[0] + "/", skip=skip,
                                range_only=mode in ("short", "long", "ignore-range"))
                        outcome = None
                        try:
                            r = h.fetch_chunk(*ch)
                            outcome = ("returned", r)
                        except Exception as exc:  # noqa: BLE001
                            outcome = ("raised", exc)
                        hits = srv.disarm()
                        obs["fault_cases"] += 1
                        obs["fault_modes"][mode] = obs["fault_modes"].get(mode, 0) + 1
                        if hits:
                            # the server is healthy again: the same accessor must return
                            # the same bytes as the local one (no state left by the failure)
                            try:
                                again = bytes(h.fetch_chunk(*ch))
                                if again != want[ch]:
                                    v.append({"kind": "chunk-differs-over-http", "detail":
                                              f"{ctx} chunk {ch}: after a {mode!r} fault had "
                                              "passed, the same accessor returns other bytes"})
                            except Exception as exc:  # noqa: BLE001
                                v.append({"kind": "accessor-unusable-after-the-fault-passed",
                                          "detail": f"{ctx} chunk {ch}: {mode!r}@{skip}: "
                                          f"{type(exc).__name__}: {str(exc)[:100]}"})
                            obs["refetch_after_fault"] = obs.get("refetch_after_fault", 0) + 1
                        if hits == 0:
                            # the fault did not apply to any request of this fetch
                            if outcome[0] != "returned" or bytes(outcome[1]) != want[ch]:
                                v.append({"kind": "fetch-wrong-without-fault", "detail":
                                          f"{ctx} {ch} armed {mode}@{skip} (not hit): "
                                          f"{outcome[0]}"})
                            continue
                        obs["faults_injected_by_server"] += 1
                        key = f"{mode}:{outcome[0]}" + (
                            ":" + type(outcome[1]).__name__ if outcome[0] == "raised" else "")
                        obs["fault_outcomes"][key] = obs["fault_outcomes"].get(key, 0) + 1
                        if outcome[0] == "returned":
                            same = bytes(outcome[1]) == want[ch]
                            v.append({"kind": "server-fault-returned-as-data",
                                      "detail": f"{ctx} chunk {ch}: server behaviour {mode!r} "
                                      f"at matching request #{skip + 1}: fetch_chunk returned "
                                      f"{len(outcome[1])} bytes "
                                      f"({'equal to' if same else 'different from'} the real "
                                      "chunk) instead of raising"})
                        elif not all_sharded and not isinstance(outcome[1], DataAccessError):
                            v.append({"kind": "fault-not-reported-as-data-access-error",
                                      "detail": f"{ctx} chunk {ch}: {mode!r}: "
                                      f"{type(outcome[1]).__name__}: {str(outcome[1])[:100]}"})
                        if len(v) > 4:
                            break
                    if len(v) > 4:
                        break
            # a connection cut ONCE, without any reply, at each request position of the
            # fetch: the fetch may fail, or go through if the client asks again - what it
            # returns must be the chunk
            for ch in targets:
                for skip in ([0] if not all_sharded else [0, 1, 2, 3]):
                    h = accessor_mod.get_accessor_for_url(fault_url)
                    srv.arm("reset", "/" + ch[0] + "/", skip=skip, once=True)
                    try:
                        outcome = ("returned", bytes(h.fetch_chunk(*ch)))
                    except Exception as exc:  # noqa: BLE001
                        outcome = ("raised", exc)
                    hits = srv.disarm()
                    if not hits:
                        continue
                    obs["connections_cut_without_reply"] = obs.get(
                        "connections_cut_without_reply", 0) + 1
                    key = "reset:" + outcome[0]
                    obs["fault_outcomes"][key] = obs["fault_outcomes"].get(key, 0) + 1
                    if outcome[0] == "returned" and outcome[1] != want[ch]:
                        v.append({"kind": "wrong-data-after-a-cut-connection",
                                  "detail": f"{ctx} chunk {ch}: connection closed without a "
                                  f"reply at matching request #{skip + 1}: fetch_chunk "
                                  f"returned {len(outcome[1])} bytes that are not the chunk"})
                    elif outcome[0] == "raised" and not all_sharded \
                            and not isinstance(outcome[1], DataAccessError):
                        v.append({"kind": "fault-not-reported-as-data-access-error",
                                  "detail": f"{ctx} chunk {ch}: cut connection: "
                                  f"{type(outcome[1]).__name__}: {str(outcome[1])[:100]}"})
                    try:
                        if bytes(h.fetch_chunk(*ch)) != want[ch]:
                            v.append({"kind": "chunk-differs-over-http", "detail":
                                      f"{ctx} chunk {ch}: after a cut connection the same "
                                      "accessor returns other bytes"})
                    except Exception as exc:  # noqa: BLE001
                        v.append({"kind": "accessor-unusable-after-the-fault-passed",
                                  "detail": f"{ctx} chunk {ch}: cut connection@{skip}: "
                                  f"{type(exc).__name__}: {str(exc)[:100]}"})
            # faults on the HEAD probes (shard discovery, file_exists)
            for mode in ("404", "500", "503"):
                h = accessor_mod.get_accessor_for_url(fault_url)
                ch = targets[0]
                srv.arm(mode, "/" + ch[0] + "/", methods=("HEAD",))
                try:
                    r = h.fetch_chunk(*ch)
                    outcome = ("returned", r)
                except Exception as exc:  # noqa: BLE001
                    outcome = ("raised", exc)
                hits = srv.disarm()
                obs["fault_cases"] += 1
                if hits:
                    obs["faults_injected_by_server"] += 1
                    obs["head_faults"] = obs.get("head_faults", 0) + 1
                    if outcome[0] == "returned" and bytes(outcome[1]) != want[ch]:
                        v.append({"kind": "server-fault-returned-as-data",
                                  "detail": f"{ctx} chunk {ch}: {mode!r} on HEAD probes: "
                                  f"fetch_chunk returned {len(outcome[1])} different bytes"})
                h = accessor_mod.get_accessor_for_url(fault_url)
                srv.arm(mode, "/ds/info", methods=("HEAD", "GET"))
                try:
                    ex = h.file_exists("info")
                    outcome = ("returned", ex)
                except DataAccessError:
                    outcome = ("DataAccessError", None)
                except Exception as exc:  # noqa: BLE001
                    outcome = (type(exc).__name__, None)
                hits = srv.disarm()
                if hits:
                    ok = (mode == "404" and outcome == ("returned", False)) or \
                        (mode != "404" and outcome[0] == "DataAccessError")
                    if not ok:
                        v.append({"kind": "file_exists-under-fault",
                                  "detail": f"{ctx}: {mode!r} on HEAD info: {outcome}"})
            # info file under fault (plain accessor): fetch_file must raise
            for mode in ("404", "500", "drop"):
                h = accessor_mod.get_accessor_for_url(fault_url)
                srv.arm(mode, "/ds/info")
                try:
                    r = h.fetch_file("info")
                    outcome = "returned"
                except DataAccessError:
                    outcome = "DataAccessError"
                except Exception as exc:  # noqa: BLE001
                    outcome = type(exc).__name__
                hits = srv.disarm()
                obs["fault_cases"] += 1
                if hits and outcome != "DataAccessError":
                    v.append({"kind": "info-fetch-under-fault",
                              "detail": f"{ctx}: {mode!r} on info: {outcome}"})
            # connection refused
            dead = httpd.closed_port_url()
            obs["refused_connection_cases"] += 1
            try:
                h = accessor_mod.get_accessor_for_url(dead + "/ds")
                r = h.fetch_chunk(*chunks[0])
                v.append({"kind": "refused-connection-returned-data", "detail": ctx})
            except DataAccessError:
                pass
            except Exception as exc:  # noqa: BLE001
                v.append({"kind": "refused-connection-wrong-error-class",
                          "detail": f"{ctx}: {type(exc).__name__}: {str(exc)[:100]}"})
        for meth, path, rng, status in srv.log:
            k = f"{meth} {status}"
            obs["requests"][k] = obs["requests"].get(k, 0) + 1
            if rng:
                obs["range_requests"] += 1
        obs["large_range_replies_delayed"] = obs.get("large_range_replies_delayed", 0) + \
            getattr(srv.httpd, "big_range_leaders", 0)
        if all_sharded and not v and not any(rng for _, _, rng, _ in srv.log):
            v.append({"kind": "harness-no-range-requests", "detail": ctx})
    finally:
        if srv:
            srv.close()
        shutil.rmtree(top, ignore_errors=True)
    sig = f"{kind}|{sorted(cfgs[0].items())}"
    return {"violations": v[:5], "obs": obs,
            "evals": obs["url_spellings"] + obs["fault_cases"],
            "distinct_disjoint": (obs["url_spellings"] + obs["fault_cases"])
            if len(chunks) >= 2 else 0,
            "sample": {"kind": kind, "cfg": cfgs[0], "chunks": len(chunks),
                       "requests_logged": len(srv.log) if srv else 0}}


def gates(obs, tier):
    calls = obs.get("calls", {})
    return {
        "plain_and_sharded_http_paths_reached": calls.get("HttpAccessor.fetch_chunk", 0) > 0
        and obs.get("calls_by_module", {}).get("sharded_http_accessor", 0) > 0,
        "all_dataset_kinds": len(obs.get("datasets", {})) == 5,
        "range_requests_logged": obs.get("range_requests", 0) > 100,
        "connections_cut_without_reply": obs.get("connections_cut_without_reply", 0) > 20,
        "datasets_with_identifiers_beyond_2_53": obs.get(
            "datasets_with_identifiers_beyond_2_53", 0) >= 4,
        "datasets_in_another_writers_shard_layout": obs.get(
            "datasets_in_another_writers_shard_layout", 0) > 5,
        "all_fault_modes_injected": len(obs.get("fault_modes", {})) == len(FAULTS)
        and obs.get("faults_injected_by_server", 0) > 100,
        "chunk_comparisons": obs.get("chunk_comparisons", 0) > 1000,
        "refused_connections": obs.get("refused_connection_cases", 0) > 10,
        "range_reads_of_a_megabyte_and_more": obs.get("large_range_replies_delayed", 0) > 3,
    }
