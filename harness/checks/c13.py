"""C13 — re-encoding a dataset preserves its voxels exactly for lossless targets.

Monitors: the real `convert-chunks` command is run as a subprocess (the only way the atexit
flush of a sharded destination happens) on generated source datasets; every chunk of every
scale is decoded from source and destination through fresh accessors and compared exactly
after the reference type conversion; the SHA-256 of the source tree is compared before/after;
remote sources are served by the loopback server.
"""
import copy
import itertools
import json
import os
import random
import shutil
import subprocess
import sys
import tempfile

from harness import httpd, shardlib
from harness.refs import dtype_exact as dx

PROPERTY = "C13"
LEVEL = "exploration"
RULE = ("case = source dataset (1-3 scales with different chunk sizes, sizes not divisible "
        "by them, all data types, 1-3 channels, raw / compressed_segmentation, flat / deep / "
        "gzip / sharded, local or served over HTTP) x destination (other encoding with its "
        "block size, other layout options, other or no sharding triple and encodings, same or "
        "wider data type, or --copy-info); the real command line is executed.  distinct = "
        "(source signature, destination signature); non-trivial = >= 2 chunks in total")
ASSUMPTIONS = [
    "convert-chunks reads the source with the destination's chunk coordinates, so source and "
    "destination share their chunk sizes (re-chunking is not a feature of the tool)",
    "'wider data type' = a type that holds every source value exactly, or float32 (nearest "
    "float32 as in C11)"]
MANIFEST = {
    "level_text": "End-to-end differential monitoring of the real convert-chunks command "
    "(subprocess): generated multi-scale source datasets are converted towards generated "
    "destinations (encoding, layout, sharding, wider type, --copy-info, remote source over a "
    "loopback HTTP server); all chunks of all scales of source and destination are decoded "
    "through fresh accessors and compared exactly after the reference type conversion; the "
    "source tree's digest must not change and the exit status must be 0.",
    "level_note": "Trusted: the local readers (checked by C03/C05) and refs/dtype_exact.py.",
    "technique": "runtime monitoring: end-to-end differential (source vs destination decoded "
    "voxels) around the real CLI process; source-tree digest monitor",
    "design_ref": "DESIGN.md section 2, C13",
}
REACH = []   # the code under test runs in child processes
WORKER_TIMEOUT = {"quick": 1500, "thorough": 7200}
CASE_TIMEOUT = 400
DTYPES = ["uint8", "uint16", "uint32", "uint64", "float32"]
WIDER = {"uint8": ["uint8", "uint16", "uint32", "uint64", "float32"],
         "uint16": ["uint16", "uint32", "uint64", "float32"],
         "uint32": ["uint32", "uint64", "float32"], "uint64": ["uint64"],
         "float32": ["float32"]}


def gen_cases(tier, seed):
    rnd = random.Random(f"C13:{seed}")
    n = 240 if tier == "quick" else 4000
    cases = [{"cseed": rnd.randrange(2 ** 32)} for _ in range(n)]
    # directed: destinations spread over more than 64 shards (the converter walks the grid
    # in raster order and comes back to shards it has left long ago)
    for k in range(3 if tier == "quick" else 12):
        cases.append({"cseed": rnd.randrange(2 ** 32), "directed": "many_shards"})
    return cases


def _chunks(sc):
    """every chunk of every chunk grid the scale announces"""
    X, Y, Z = sc["size"]
    seen = set()
    for cs in sc["chunk_sizes"]:
        for x, y, z in itertools.product(range(0, X, cs[0]), range(0, Y, cs[1]),
                                         range(0, Z, cs[2])):
            c = (x, min(x + cs[0], X), y, min(y + cs[1], Y), z, min(z + cs[2], Z))
            if c not in seen:
                seen.add(c)
                yield c


def _read_all(np, url):
    from neuroglancer_scripts import accessor as accessor_mod
    from neuroglancer_scripts import precomputed_io
    pio = precomputed_io.get_IO_for_existing_dataset(accessor_mod.get_accessor_for_url(url))
    out = {}
    for sc in pio.info["scales"]:
        for c in _chunks(sc):
            out[(sc["key"], c)] = np.array(pio.read_chunk(sc["key"], c))
    return out, pio.info


def run_case(case):
    import numpy as np
    from neuroglancer_scripts import accessor as accessor_mod
    from neuroglancer_scripts import precomputed_io
    rnd = random.Random(case["cseed"])
    top = tempfile.mkdtemp(prefix="c13-")
    obs = {"conversions": 0, "chunks_compared": 0, "src_kinds": {}, "dst_kinds": {},
           "copy_info": 0, "remote_source": 0, "wider_type": 0, "sharded_src": 0,
           "sharded_dst": 0, "encoding_change": 0, "scales": 0}
    v = []
    srv = None
    try:
        # ---- source
        src_sharded = rnd.random() < 0.35
        dst_mode = rnd.choice(["info", "info", "info", "copy"])
        dst_sharded = rnd.random() < 0.4
        many = case.get("directed") == "many_shards"
        if many:
            src_sharded, dst_mode, dst_sharded = rnd.random() < 0.3, "info", True
        sharded_any = src_sharded or dst_sharded or many
        cubic = src_sharded or dst_sharded or rnd.random() < 0.3
        sdt = rnd.choice(DTYPES)
        senc = "compressed_segmentation" if sdt in ("uint32", "uint64") and rnd.random() < 0.4 \
            else "raw"
        nch = rnd.choice([1, 1, 2, 3])
        scales = []
        for i in range(rnd.choice([1, 2, 3])):
            size = [rnd.randint(1, 22) for _ in range(3)]
            if many:
                size = [rnd.choice([31, 32]), rnd.choice([15, 16]), rnd.choice([8, 9])]
                size = [max(1, x >> i) for x in size]
            if many:
                cs = [2, 2, 2]
            elif cubic:
                c = rnd.choice([2, 4, 8])
                cs = [c, c, c]
            else:
                cs = [rnd.choice([2, 3, 4, 8, 16]) for _ in range(3)]
            css = [cs]
            if not sharded_any and rnd.random() < 0.3:
                # a scale that offers a second chunk grid (same origin, other chunk size)
                other = [c * 2 for c in cs] if rnd.random() < 0.5 else \
                    [rnd.choice([2, 3, 4, 8]) for _ in range(3)]
                if other != cs:
                    css.append(other)
                    obs["scales_with_two_chunk_grids"] = 1
            sc = {"key": f"s{i}", "size": size, "chunk_sizes": css, "resolution": [2 ** i] * 3,
                  "voxel_offset": [0, 0, 0], "encoding": senc}
            if senc != "raw":
                sc["compressed_segmentation_block_size"] = [rnd.choice([2, 4, 8])
                                                            for _ in range(3)]
            scales.append(sc)
        sinfo = {"type": "image", "data_type": sdt, "num_channels": nch, "scales": scales}
        scfg = shardlib.gen_config(rnd, "quick")
        if src_sharded:
            # sharding parameters are a property of each scale: half of the sharded
            # datasets give every scale its own triple and encodings
            per_scale = rnd.random() < 0.5
            for sc in sinfo["scales"]:
                sc["sharding"] = shardlib.sharding_of(
                    shardlib.gen_config(rnd, "quick") if per_scale else scfg)
        sopts = {"flat": rnd.random() < 0.5, "gzip": rnd.random() < 0.5}
        src = os.path.join(top, "src")
        acc = accessor_mod.get_accessor_for_url(src, {"sharding": True} if src_sharded
                                                else sopts)
        pio = precomputed_io.get_IO_for_new_dataset(copy.deepcopy(sinfo), acc)
        g = np.random.default_rng(case["cseed"])
        dt = np.dtype(sdt)
        written = {}
        for sc in sinfo["scales"]:
            for c in _chunks(sc):
                shp = (nch, c[5] - c[4], c[3] - c[2], c[1] - c[0])
                if dt.kind == "f":
                    arr = (g.integers(-4000, 4000, shp) / 8).astype(dt)
                elif senc != "raw":
                    arr = g.integers(0, 6, shp).astype(dt) * dt.type(
                        np.iinfo(dt).max // 7)
                else:
                    arr = g.integers(0, np.iinfo(dt).max, shp, dtype=dt, endpoint=True)
                written[(sc["key"], c)] = arr.copy()
                pio.write_chunk(arr, sc["key"], c)
        if hasattr(acc, "close"):
            acc.close()
        if src_sharded and rnd.random() < 0.3:
            # the older on-disk form of the same format: every <n>.shard kept as the pair
            # <n>.index (shard index) + <n>.data (everything after it)
            obs["legacy_index_data_sources"] = 1
            for sc in sinfo["scales"]:
                n = 16 << sc["sharding"]["minishard_bits"]
                sd = os.path.join(src, sc["key"])
                for fn in (os.listdir(sd) if os.path.isdir(sd) else []):
                    if not fn.endswith(".shard"):
                        continue
                    p = os.path.join(sd, fn)
                    with open(p, "rb") as f:
                        b = f.read()
                    with open(p[:-6] + ".index", "wb") as f:
                        f.write(b[:n])
                    with open(p[:-6] + ".data", "wb") as f:
                        f.write(b[n:])
                    os.remove(p)
        # ---- destination
        dst = os.path.join(top, "dst")
        args = []
        extra_scale = False
        if dst_mode == "copy":
            ddt, denc = sdt, senc
            obs["copy_info"] = 1
            args.append("--copy-info")
            dst_sharded = src_sharded
        else:
            ddt = rnd.choice(WIDER[sdt])
            denc = rnd.choice(["raw", "compressed_segmentation"])
            if denc == "compressed_segmentation" and ddt not in ("uint32", "uint64"):
                ddt = "uint32" if "uint32" in WIDER[sdt] else (
                    "uint64" if "uint64" in WIDER[sdt] else ddt)
                if ddt not in ("uint32", "uint64"):
                    denc = "raw"
            dinfo = copy.deepcopy(sinfo)
            dinfo["data_type"] = ddt
            dcfg = shardlib.gen_config(rnd, "quick")
            if many:
                dcfg.update({"minishard_bits": rnd.choice([0, 1]), "shard_bits": 7,
                             "preshift_bits": rnd.choice([0, 1])})
                obs["many_shards_destinations"] = 1
            per_scale_dst = dst_sharded and not many and rnd.random() < 0.5
            if per_scale_dst and len(dinfo["scales"]) > 1:
                obs["destinations_with_per_scale_sharding"] = 1
            for sc in dinfo["scales"]:
                sc["encoding"] = denc
                sc.pop("compressed_segmentation_block_size", None)
                sc.pop("sharding", None)
                if denc != "raw":
                    sc["compressed_segmentation_block_size"] = [rnd.choice([1, 2, 4, 8])
                                                                for _ in range(3)]
                if dst_sharded:
                    sc["sharding"] = shardlib.sharding_of(
                        shardlib.gen_config(rnd, "quick") if per_scale_dst else dcfg)
            # the destination describes its scales in its own order, or only some of them:
            # scales are identified by key
            if len(dinfo["scales"]) > 1 and not many:
                how = rnd.choice(["same", "same", "reversed", "subset", "rotated"])
                if how == "reversed":
                    dinfo["scales"].reverse()
                elif how == "rotated":
                    dinfo["scales"] = dinfo["scales"][1:] + dinfo["scales"][:1]
                elif how == "subset":
                    del dinfo["scales"][0]
                if how != "same":
                    obs["destination_scale_lists_reordered_or_partial"] = 1
            if not many and not dst_sharded and rnd.random() < 0.08:
                # the destination announces a scale the source does not have: the command
                # cannot succeed (it must not exit 0 leaving that scale empty)
                ex = copy.deepcopy(dinfo["scales"][-1])
                ex["key"] = "not_in_source"
                dinfo["scales"].append(ex)
                extra_scale = True
                obs["destinations_announcing_a_scale_the_source_lacks"] = 1
            dst_keys = {sc["key"] for sc in dinfo["scales"]}
            os.makedirs(dst)
            with open(os.path.join(dst, "info"), "w") as f:
                json.dump(dinfo, f)
        if not dst_sharded:
            if rnd.random() < 0.5:
                args.append("--flat")
            if rnd.random() < 0.5:
                args.append("--no-gzip")
        remote = (not src_sharded and sopts["flat"] and not sopts["gzip"]
                  and rnd.random() < 0.5) or (src_sharded and rnd.random() < 0.3)
        src_url = src
        if remote:
            srv = httpd.StaticServer(top)
            src_url = srv.base + "/src"
            obs["remote_source"] = 1
        obs["src_kinds"][("sharded" if src_sharded else "plain") + ":" + senc] = 1
        obs["dst_kinds"][("sharded" if dst_sharded else "plain") + ":" + denc] = 1
        obs["wider_type"] = int(ddt != sdt)
        obs["sharded_src"], obs["sharded_dst"] = int(src_sharded), int(dst_sharded)
        obs["encoding_change"] = int(denc != senc)
        obs["scales"] = len(scales)
        ctx = (f"src {sdt}x{nch} {senc} {'sharded' if src_sharded else sopts} scales "
               f"{[(s['size'], s['chunk_sizes'][0]) for s in scales]} "
               f"{'(over HTTP) ' if remote else ''}-> dst {ddt} {denc} "
               f"{'sharded' if dst_sharded else 'plain'} args {args}")
        before = shardlib.tree_digest(src)[0]
        # the expected voxels are the arrays that were written into the source, not what the
        # package reads back from it
        try:
            sread, _ = _read_all(np, src)
        except Exception as exc:  # noqa: BLE001
            v.append({"kind": "source-dataset-cannot-be-read",
                      "detail": f"{ctx}: {type(exc).__name__}: {str(exc)[:200]}"})
            return {"violations": v, "obs": obs}
        sdata = written
        if dst_mode != "copy":
            sdata = {k: a for k, a in sdata.items() if k[0] in dst_keys}
        from harness import cli
        report = os.path.join(top, "child-monitors.jsonl")
        rc, tail, _out = cli.run("convert_chunks", [*args, src_url, dst], report=report,
                                 timeout=300)
        from harness.core import merge_obs
        merge_obs(obs, cli.read_report(report))
        if dst_mode != "copy" and extra_scale:
            if rc == 0:
                v.append({"kind": "successful-command-did-not-write-all-its-chunks",
                          "detail": f"{ctx}: the destination info announces scale "
                          "'not_in_source', which the source does not have; exit status 0"})
            else:
                obs["impossible_conversions_refused"] = 1
            return {"violations": v, "obs": obs}
        if rc != 0:
            v.append({"kind": "convert-chunks-failed",
                      "detail": f"{ctx}: exit status {rc}: {tail}"})
            return {"violations": v, "obs": obs}
        obs["conversions"] = 1
        # offline audit of the command's own event log: every destination chunk must have
        # reached the storage layer in this very process
        recs = cli.read_records(report)
        if recs:
            wrote = {(k, tuple(c)) for k, c in recs[-1].get("written", [])}
            obs["event_log_audits"] = obs.get("event_log_audits", 0) + 1
            lost = sorted(set(sdata) - wrote)
            if lost:
                v.append({"kind": "successful-command-did-not-write-all-its-chunks",
                          "detail": f"{ctx}: exit status 0 but {len(lost)} of {len(sdata)} "
                          f"chunks never reached store_chunk, e.g. {lost[0]}"})
        if shardlib.tree_digest(src)[0] != before:
            v.append({"kind": "source-modified", "detail": ctx})
        try:
            ddata, dinfo2 = _read_all(np, dst)
        except Exception as exc:  # noqa: BLE001
            v.append({"kind": "destination-unreadable",
                      "detail": f"{ctx}: {type(exc).__name__}: {str(exc)[:160]}"})
            return {"violations": v, "obs": obs}
        if set(ddata) != set(sdata):
            v.append({"kind": "destination-chunk-set-differs",
                      "detail": f"{ctx}: {len(ddata)} chunks vs {len(sdata)} in the source"})
        for k, a in sdata.items():
            b = ddata.get(k)
            if b is None:
                continue
            obs["chunks_compared"] += 1
            ok = b.shape == a.shape and b.dtype == np.dtype(ddt)
            if ok:
                if ddt == "float32" and sdt != "float32":
                    ok = all(float(y) in dx.nearest_float32(int(x))
                             for x, y in zip(a.ravel().tolist(), b.ravel().tolist()))
                elif ddt == "float32":
                    ok = np.array_equal(a, b)
                else:
                    ok = a.ravel().tolist() == b.ravel().tolist()
            if not ok:
                v.append({"kind": "destination-chunk-differs-from-source",
                          "detail": f"{ctx}: scale/chunk {k}: destination {b.dtype} "
                          f"{b.shape}, source {a.dtype} {a.shape}"})
                break
        if dst_mode == "copy":
            with open(os.path.join(dst, "info")) as f:
                if json.load(f) != json.loads(json.dumps(sinfo)):
                    v.append({"kind": "copied-info-differs", "detail": ctx})
    finally:
        if srv:
            srv.close()
        shutil.rmtree(top, ignore_errors=True)
    sig = ctx
    return {"violations": v[:4], "obs": obs, "sigs": [sig] if len(sdata) >= 2 else [],
            "sample": {"source": f"{sdt}x{nch} {senc} "
                       f"{'sharded' if src_sharded else sopts}",
                       "dest": f"{ddt} {denc} {'sharded' if dst_sharded else 'plain'}",
                       "args": args, "remote": bool(remote),
                       "scales": [(s["size"], s["chunk_sizes"][0]) for s in scales]}}


def gates(obs, tier):
    return {
        "conversions_run": obs.get("conversions", 0) > 50,
        "chunks_compared": obs.get("chunks_compared", 0) > 1000,
        "copy_info_cases": obs.get("copy_info", 0) > 5,
        "remote_sources": obs.get("remote_source", 0) > 5,
        "wider_types": obs.get("wider_type", 0) > 10,
        "legacy_index_data_sources": obs.get("legacy_index_data_sources", 0) > 2,
        "sharded_sources_and_destinations": obs.get("sharded_src", 0) > 5
        and obs.get("sharded_dst", 0) > 5,
        "encoding_changes": obs.get("encoding_change", 0) > 10,
        "multi_scale": obs.get("scales", 0) > obs.get("conversions", 0),
        "destinations_with_more_than_64_shards": obs.get("many_shards_destinations", 0) > 0,
        "impossible_conversions_refused": obs.get("impossible_conversions_refused", 0) > 2,
        "scales_with_two_chunk_grids": obs.get("scales_with_two_chunk_grids", 0) > 5,
        "destination_scale_lists_reordered_or_partial": obs.get(
            "destination_scale_lists_reordered_or_partial", 0) > 5,
        "destinations_with_per_scale_sharding": obs.get(
            "destinations_with_per_scale_sharding", 0) > 5,
        "monitors_active_inside_the_command_processes": obs.get("child_processes", 0) > 50
        and obs.get("child_write_chunk_events", 0) > 1000
        and obs.get("child_contract_evaluations", {}).get("compressed_morton_code", 0) > 100,
        "event_logs_audited": obs.get("event_log_audits", 0) > 50,
    }
