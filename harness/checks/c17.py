"""C17 — mesh files follow the formats Neuroglancer reads and survive a round trip.

Monitors: bytes written by save_mesh_as_precomputed compared with the layout of the format
specification; arrays / exceptions returned by read_precomputed_mesh on mutated data; vertices
and triangle orientation before/after affine_transform_mesh; the file written by the real
mesh-to-precomputed conversion of a GIfTI file; VTK output parsed by a grammar of the subset
Neuroglancer accepts; fragment-link files compared with the CSV table.
"""
import csv
import io
import json
import os
import random
import re
import shutil
import struct
import tempfile

PROPERTY = "C17"
LEVEL = "exploration"
RULE = ("case kinds: layout (vertex/triangle arrays: empty, one triangle, many; float32/64 "
        "vertices; uint8/16/32/int triangles; C-, Fortran-ordered and strided arrays; indices "
        "at n-1) + reader fuzz (all truncations of small files, index = n-1 / n / n+1 / 2^32-1, "
        "byte flips, appended bytes, random bytes); affine (integer matrices with det of both "
        "signs, small-scale mirrors down to 1e-4, float rotations/shears, 3x4 and 4x4); gifti "
        "(real mesh_file_to_precomputed incl. --coord-transform, names, gzip on/off); vtk "
        "(attribute sets with 1-4 components, titles incl. > 255 chars); links (label/fragment "
        "tables).  distinct = case signature; non-trivial = at least one triangle")
ASSUMPTIONS = [
    "precomputed mesh layout: uint32le vertex count, float32le xyz triples, uint32le index "
    "triples (Neuroglancer meshes.md, 'legacy single-resolution mesh fragment')",
    "orientation is decided with exact integer arithmetic for integer matrices/vertices and "
    "with float64 for matrices with |det| >= 1e-12 * product of column norms",
    "VTK subset = what Neuroglancer's datasource/vtk/parse.ts accepts (header, ASCII, DATASET "
    "POLYDATA, POINTS n float, POLYGONS m 4m with '3 a b c' rows, POINT_DATA n, SCALARS name "
    "float [k] + LOOKUP_TABLE default)"]
MANIFEST = {
    "level_text": "Oracle monitoring of the real mesh writers, reader, affine transform, "
    "GIfTI conversion command, VTK export and fragment linker: written bytes are compared "
    "with the specified layout, the reader is fuzzed (only consistent arrays or "
    "InvalidMeshDataError are accepted), transformed meshes are checked vertex by vertex "
    "and triangle by triangle for orientation, converted files are re-read, VTK text is "
    "parsed by a subset grammar and link files are compared with the CSV.  Exploration.",
    "level_note": "Trusted: the layout and grammar transcribed in this module; nibabel for "
    "producing GIfTI inputs.",
    "technique": "runtime monitoring: byte-level layout oracle, reader fuzzing with an "
    "exception-class monitor, geometric orientation oracle, grammar-based output parser",
    "design_ref": "DESIGN.md section 2, C17",
}
REACH = ["save_mesh_as_precomputed", "read_precomputed_mesh", "affine_transform_mesh",
         "save_mesh_as_neuroglancer_vtk", "mesh_file_to_precomputed",
         "make_mesh_fragment_links"]
WORKER_TIMEOUT = {"quick": 900, "thorough": 5400}
CASE_TIMEOUT = 120


def gen_cases(tier, seed):
    rnd = random.Random(f"C17:{seed}")
    mult = 10 if tier == "quick" else 300
    cases = []
    for kind, n in (("layout", 400), ("affine", 1200), ("gifti", 90), ("vtk", 250),
                    ("links", 40)):
        for _ in range(n * mult):
            cases.append({"kind": kind, "seed": rnd.randrange(2 ** 32)})
    for _ in range(4 * mult):
        cases.append({"kind": "layout", "seed": rnd.randrange(2 ** 32), "large": True})
    return cases


# ------------------------------------------------------------------ layout + reader fuzz

def run_layout(case):
    import numpy as np
    from neuroglancer_scripts import mesh as M
    rnd = random.Random(case["seed"])
    g = np.random.default_rng(case["seed"])
    n = rnd.choice([0, 1, 3, 4, 10, 50])
    m = rnd.choice([0, 1, 5, 30]) if n > 0 else 0
    if case.get("large"):
        n, m = rnd.choice([65535, 65536, 65537, 70000]), 300
    V = (g.normal(size=(n, 3)) * 10 ** g.uniform(-2, 6)).astype(
        rnd.choice([np.float32, np.float64]))
    T = g.integers(0, max(n, 1), size=(m, 3)).astype(
        rnd.choice([np.uint32, np.uint16, np.uint8]) if n < 256 else
        rnd.choice([np.uint32, np.int64, np.int32][:1 if n >= 2 ** 31 else 3]))
    if T.dtype != np.uint32 and n >= 256:
        T = T.astype(np.uint32)
    if n and m:
        T[0] = [n - 1, 0, n - 1]
    lay = rnd.choice(["C", "F", "T", "view", "BE"])
    Vw, Tw = V, T
    if lay == "F":
        Vw, Tw = np.asfortranarray(V), np.asfortranarray(T)
    elif lay == "T":
        Vw = np.ascontiguousarray(V.T).T
        Tw = np.ascontiguousarray(T.T).T
    elif lay == "BE":
        # non-native byte order (arrays decoded from big-endian sources)
        Vw = V.astype(V.dtype.newbyteorder(">"))
        Tw = T.astype(T.dtype.newbyteorder(">"))
    elif lay == "view":
        big = np.zeros((n, 6), V.dtype)
        big[:, ::2] = V
        Vw = big[:, ::2]
    obs = {"meshes_written": 0, "reader_inputs": 0, "reader_rejected": 0,
           "reader_accepted": 0, "noncontiguous": int(not Vw.flags["C_CONTIGUOUS"]),
           "meshes_beyond_65535_vertices": int(n > 65535),
           "big_endian_arrays": int(lay == "BE")}
    v = []
    ctx = f"n={n} m={m} vdtype={V.dtype} tdtype={T.dtype} layout={lay}"
    b = io.BytesIO()
    try:
        M.save_mesh_as_precomputed(b, Vw, Tw)
    except Exception as exc:  # noqa: BLE001
        return {"violations": [{"kind": "writer-raised",
                                "detail": f"{ctx}: {type(exc).__name__}: {exc}"}], "obs": obs}
    raw = b.getvalue()
    obs["meshes_written"] = 1
    exp = struct.pack("<I", n)
    for row in V.tolist():
        exp += struct.pack("<3f", *[np.float32(x) for x in row])
    for row in T.tolist():
        exp += struct.pack("<3I", *row)
    if raw != exp:
        v.append({"kind": "layout-differs-from-format",
                  "detail": f"{ctx}: {len(raw)} bytes written, first difference at byte "
                  f"{next((i for i, (a, c) in enumerate(zip(raw, exp)) if a != c), min(len(raw), len(exp)))}"})
    try:
        v2, t2 = M.read_precomputed_mesh(io.BytesIO(raw))
        if not (v2.shape == (n, 3) and t2.shape == (m, 3)
                and np.array_equal(v2, V.astype(np.float32)) and np.array_equal(t2, T)):
            v.append({"kind": "round-trip-differs", "detail": ctx})
    except Exception as exc:  # noqa: BLE001
        v.append({"kind": "reader-rejects-written-mesh",
                  "detail": f"{ctx}: {type(exc).__name__}: {exc}"})
    # reader fuzz
    muts = []
    if len(exp) <= 200:
        muts += [exp[:k] for k in range(len(exp))]
    for _ in range(12):
        bb = bytearray(exp)
        mode = rnd.random()
        if mode < 0.25:
            bb = bb[:rnd.randint(0, len(bb))]
        elif mode < 0.5 and len(bb) > 4:
            bb[rnd.randrange(len(bb))] = rnd.randrange(256)
        elif mode < 0.8 and m > 0:
            struct.pack_into("<I", bb, 4 + 12 * n + 4 * rnd.randrange(3 * m),
                             rnd.choice([n, n + 1, n - 1, 2 ** 32 - 1, n, n]))
        elif mode < 0.9:
            bb += rnd.randbytes(rnd.randint(1, 13))
        else:
            bb = bytearray(rnd.randbytes(rnd.randint(0, 40)))
        muts.append(bytes(bb))
    for bb in muts:
        obs["reader_inputs"] += 1
        try:
            v3, t3 = M.read_precomputed_mesh(io.BytesIO(bb))
        except M.InvalidMeshDataError:
            obs["reader_rejected"] += 1
            continue
        except Exception as exc:  # noqa: BLE001
            v.append({"kind": "reader-raised-undocumented-exception",
                      "detail": f"{ctx}: {len(bb)} bytes {bb[:24].hex()}..: "
                      f"{type(exc).__name__}: {exc}"})
            continue
        obs["reader_accepted"] += 1
        nn = struct.unpack("<I", bb[:4])[0]
        consistent = (v3.shape == (nn, 3) and t3.ndim == 2 and t3.shape[1] == 3
                      and (t3.size == 0 or int(t3.max()) < nn)
                      and len(bb) == 4 + 12 * nn + 12 * len(t3))
        if not consistent:
            v.append({"kind": "reader-accepts-truncated-or-dangling-mesh",
                      "detail": f"{ctx}: {len(bb)} bytes accepted: {nn} vertices declared, "
                      f"{v3.shape} read, {len(t3)} triangles, max index "
                      f"{int(t3.max()) if t3.size else None}"})
        if len(v) > 6:
            break
    return {"violations": v[:6], "obs": obs, "evals": 1 + len(muts),
            "sigs": [ctx + f"|{case['seed'] % 997}"] if m else [],
            "sample": {"kind": "layout", "n": n, "m": m, "layout": lay}}


# ------------------------------------------------------------------ affine

def run_affine(case):
    import numpy as np
    from fractions import Fraction
    from neuroglancer_scripts import mesh as M
    rnd = random.Random(case["seed"])
    g = np.random.default_rng(case["seed"])
    mode = rnd.choice(["int", "int", "small_mirror", "float"])
    if mode == "int":
        R = g.integers(-3, 4, size=(3, 3)).astype(float)
        if round(np.linalg.det(R)) == 0:
            R = np.diag([1., -2., 3.])
    elif mode == "small_mirror":
        s = rnd.choice([1e-1, 1e-2, 2e-3, 1e-3, 1e-4, 1.0, 1e3])
        P = np.eye(3)[list(g.permutation(3))]
        R = P * s
        if np.linalg.det(R) > 0:
            R[:, 0] = -R[:, 0]
    else:
        R = g.normal(size=(3, 3)) * 10 ** g.uniform(-3, 3)
        if abs(np.linalg.det(R)) < 1e-6 * np.prod(np.linalg.norm(R, axis=0)):
            R = np.eye(3) * 2
    tr = g.integers(-50, 50, size=3).astype(float)
    A = np.eye(4)
    A[:3, :3] = R
    A[:3, 3] = tr
    nv = 8
    # vertex arrays of any type convertible to float32 (voxel-index vertices are integers)
    vdt = rnd.choice([np.float32, np.float32, np.float64, np.int32, np.int16, np.uint8,
                      np.int64])
    V = g.integers(0 if vdt == np.uint8 else -20, 20, size=(nv, 3)).astype(vdt)
    T = np.array([g.choice(nv, 3, replace=False) for _ in range(6)],
                 dtype=rnd.choice([np.uint32, np.uint32, np.int64, np.int32]))
    use34 = rnd.random() < 0.5
    det = float(np.linalg.det(R))
    obs = {"affine_cases": 1, "mirroring": int(det < 0), "small_det": int(abs(det) < 1e-6),
           "triangles_checked": 0,
           "integer_typed_vertices": int(np.dtype(vdt).kind in "iu")}
    v = []
    ctx = (f"mode={mode} det={det:.3g} {'3x4' if use34 else '4x4'} vertices "
           f"{np.dtype(vdt).name} seed={case['seed']}")
    V_before, T_before = V.copy(), T.copy()
    try:
        V2, T2 = M.affine_transform_mesh(V, T, A[:3] if use34 else A)
        # the caller's arrays are inputs: a second transform of the same mesh (e.g. another
        # copy of a template) must start from unchanged data
        V2b, T2b = M.affine_transform_mesh(V, T, A[:3] if use34 else A)
    except Exception as exc:  # noqa: BLE001
        return {"violations": [{"kind": "affine-transform-raised",
                                "detail": f"{ctx}: {type(exc).__name__}: {exc}"}], "obs": obs}
    if not (np.array_equal(V, V_before) and np.array_equal(T, T_before)):
        v.append({"kind": "input-mesh-modified-by-the-transform", "detail": ctx})
    if not (np.array_equal(np.asarray(V2b), np.asarray(V2))
            and np.array_equal(np.asarray(T2b), np.asarray(T2))):
        v.append({"kind": "second-transform-of-the-same-mesh-differs", "detail": ctx})
    V, T = V_before, T_before
    V2 = np.asarray(V2, dtype=float)
    want = (R @ V.astype(float).T).T + tr
    if V2.shape != want.shape or not np.allclose(V2, want, rtol=1e-6, atol=1e-9 * (1 + abs(
            want).max())):
        v.append({"kind": "vertices-not-moved-by-the-transform", "detail": ctx})
    if len(T2) != len(T):
        v.append({"kind": "triangle-count-changed", "detail": ctx})
    else:
        Rinv_T = np.linalg.inv(R).T
        for tri, tri2 in zip(T.tolist(), np.asarray(T2).tolist()):
            if sorted(tri) != sorted(tri2):
                v.append({"kind": "triangle-vertices-changed",
                          "detail": f"{ctx}: {tri} -> {tri2}"})
                break
            a, b, c = (V[i].astype(float) for i in tri)
            n0 = np.cross(b - a, c - a)
            if not n0.any():
                continue
            a2, b2, c2 = (want[i] for i in tri2)
            n1 = np.cross(b2 - a2, c2 - a2)
            # the outward normal transforms with the inverse transpose
            obs["triangles_checked"] += 1
            if mode in ("int", "small_mirror"):
                fr = [[Fraction(x) for x in row] for row in R.tolist()]
                d = (fr[0][0] * (fr[1][1] * fr[2][2] - fr[1][2] * fr[2][1])
                     - fr[0][1] * (fr[1][0] * fr[2][2] - fr[1][2] * fr[2][0])
                     + fr[0][2] * (fr[1][0] * fr[2][1] - fr[1][1] * fr[2][0]))
                # parity of the vertex order: same cyclic order <=> orientation kept
                same_cycle = tri2 in (tri, tri[1:] + tri[:1], tri[2:] + tri[:2])
                ok = same_cycle == (d > 0)
            else:
                ok = float(np.dot(n1, Rinv_T @ n0)) > 0
            if not ok:
                v.append({"kind": "triangle-orientation-not-preserved",
                          "detail": f"{ctx}: triangle {tri} -> {tri2}: winding "
                          f"{'kept' if tri2 in (tri, tri[1:] + tri[:1], tri[2:] + tri[:2]) else 'reversed'}"
                          f" although det {'<' if det < 0 else '>'} 0"})
                break
    return {"violations": v[:3], "obs": obs, "sigs": [ctx],
            "sample": {"kind": "affine", "mode": mode, "det": det, "matrix": R.tolist()}}


# ------------------------------------------------------------------ gifti conversion

def run_gifti(case):
    import nibabel
    import numpy as np
    from nibabel import gifti
    from neuroglancer_scripts import accessor as accessor_mod
    from neuroglancer_scripts import mesh as M
    from neuroglancer_scripts.scripts import mesh_to_precomputed as m2p
    rnd = random.Random(case["seed"])
    g = np.random.default_rng(case["seed"])
    top = tempfile.mkdtemp(prefix="c17-")
    obs = {"gifti_conversions": 0, "with_transform": 0}
    v = []
    try:
        n, m = rnd.choice([(3, 1), (8, 6), (40, 30)])
        V = (g.normal(size=(n, 3)) * 50).astype(np.float32)
        # the topology array in the usual int32, or in another numeric type a GIFTI writer
        # may choose (the indices are the same numbers)
        tname, tcode = (("int32", "NIFTI_TYPE_INT32"), ("uint8", "NIFTI_TYPE_UINT8"),
                        ("float32", "NIFTI_TYPE_FLOAT32"),
                        ("int32", "NIFTI_TYPE_INT32"))[case["seed"] % 4]
        obs["gifti_triangle_types"] = {tname: 1}
        T = np.array([g.choice(n, 3, replace=False) for _ in range(m)], dtype=tname)
        img = gifti.GiftiImage()
        das = [gifti.GiftiDataArray(V, intent="NIFTI_INTENT_POINTSET",
                                    datatype="NIFTI_TYPE_FLOAT32"),
               gifti.GiftiDataArray(T, intent="NIFTI_INTENT_TRIANGLE", datatype=tcode)]
        if case["seed"] % 3 == 0:
            das.reverse()     # the format identifies the arrays by intent, not by position
            obs["gifti_triangles_before_points"] = 1
        for da in das:
            img.add_gifti_data_array(da)
        src = os.path.join(top, rnd.choice(["lh.pial", "mesh_A", "x"]) + ".gii")
        nibabel.save(img, src)
        dest = os.path.join(top, "ds")
        os.makedirs(dest)
        info = {"type": "segmentation", "data_type": "uint32", "num_channels": 1,
                "scales": [{"key": "k", "size": [4, 4, 4], "chunk_sizes": [[4, 4, 4]],
                            "encoding": "raw", "resolution": [1, 1, 1],
                            "voxel_offset": [0, 0, 0]}]}
        with open(os.path.join(dest, "info"), "w") as f:
            json.dump(info, f)
        name = rnd.choice([None, "frag7", "a.b"])
        mesh_dir = rnd.choice([None, None, "meshes"])
        coord = None
        argv = ["mesh-to-precomputed", src, dest]
        if rnd.random() < 0.6:
            R = g.integers(-2, 3, size=(3, 3)).astype(float)
            if round(np.linalg.det(R)) == 0:
                R = np.diag([-1., 1., 1.])
            t = g.integers(-30, 30, size=3).astype(float)
            coord = np.hstack([R, t[:, None]])
            flat = coord.ravel().tolist()
            if rnd.random() < 0.5:
                flat += [0, 0, 0, 1]
            argv.append("--coord-transform=" + ",".join(repr(x) for x in flat))
            obs["with_transform"] = 1
        if name:
            argv += ["--mesh-name", name]
        if mesh_dir:
            argv += ["--mesh-dir", mesh_dir]
        gz = rnd.random() < 0.5
        if not gz:
            argv.append("--no-gzip")
        ctx = f"gifti n={n} m={m} argv={argv[3:]}"
        try:
            rc = m2p.main(argv)
        except BaseException as exc:  # noqa: BLE001
            return {"violations": [{"kind": "mesh-conversion-raised",
                                    "detail": f"{ctx}: {type(exc).__name__}: {exc}"}],
                    "obs": obs}
        obs["gifti_conversions"] = 1
        acc = accessor_mod.get_accessor_for_url(dest)
        info2 = json.loads(acc.fetch_file("info"))
        want_dir = mesh_dir or "mesh"
        want_name = name or os.path.splitext(os.path.basename(src))[0]
        if rc not in (0, None) or info2.get("mesh") != want_dir:
            v.append({"kind": "mesh-key-not-recorded", "detail":
                      f"{ctx}: status {rc}, info mesh key {info2.get('mesh')!r}"})
        try:
            data = acc.fetch_file(want_dir + "/" + want_name)
        except Exception as exc:  # noqa: BLE001
            v.append({"kind": "mesh-file-missing", "detail":
                      f"{ctx}: {want_dir}/{want_name}: {type(exc).__name__}"})
            return {"violations": v, "obs": obs}
        on_disk = os.path.join(dest, want_dir, want_name + (".gz" if gz else ""))
        if not os.path.isfile(on_disk):
            v.append({"kind": "mesh-file-at-unexpected-path", "detail": f"{ctx}: {on_disk}"})
        try:
            V2, T2 = M.read_precomputed_mesh(io.BytesIO(data))
        except Exception as exc:  # noqa: BLE001
            v.append({"kind": "converted-mesh-cannot-be-read-back", "detail":
                      f"{ctx}: {type(exc).__name__}: {exc}"})
            return {"violations": v, "obs": obs}
        Vw = V.astype(float)
        Tw = T.tolist()
        if coord is not None:
            Vw = (coord[:, :3] @ Vw.T).T + coord[:, 3]
            if np.linalg.det(coord[:, :3]) < 0:
                Tw = [list(reversed(t_)) for t_ in Tw]
        want_V = (Vw * 1e6).astype(np.float32)
        if V2.shape != want_V.shape or not np.allclose(V2, want_V, rtol=2e-6, atol=1e-3):
            v.append({"kind": "vertices-not-in-nanometres", "detail":
                      f"{ctx}: first vertex {V2[:1].tolist()} expected {want_V[:1].tolist()}"})
        norm = lambda t_: min(t_[i:] + t_[:i] for i in range(3))   # noqa: E731
        if [norm(list(map(int, t_))) for t_ in T2.tolist()] != [norm(t_) for t_ in Tw]:
            v.append({"kind": "triangles-differ", "detail":
                      f"{ctx}: {T2[:2].tolist()} expected {Tw[:2]}"})
        # the same command once more on the same dataset (accepted or refused): the mesh
        # written by the first run is still there, byte for byte
        if not v and case["seed"] % 2 == 0:
            try:
                rc2 = m2p.main(argv)
            except BaseException as exc:  # noqa: BLE001
                rc2 = type(exc).__name__
            obs["second_runs"] = 1
            try:
                again = accessor_mod.get_accessor_for_url(dest).fetch_file(
                    want_dir + "/" + want_name)
            except Exception as exc:  # noqa: BLE001
                again = type(exc).__name__
            if again != data:
                v.append({"kind": "mesh-lost-or-changed-by-a-second-run", "detail":
                          f"{ctx}: second run ended with {rc2!r}; the fragment is now "
                          f"{again if isinstance(again, str) else str(len(again)) + ' bytes'}"
                          f" (was {len(data)} bytes)"})
    finally:
        shutil.rmtree(top, ignore_errors=True)
    return {"violations": v[:3], "obs": obs, "sigs": [f"gifti|{case['seed']}"],
            "sample": {"kind": "gifti", "argv": argv[3:]}}


# ------------------------------------------------------------------ VTK

def _parse_vtk(txt):
    lines = txt.split("\n")
    assert re.fullmatch(r"[ \t]*#[ \t]+vtk[ \t]+DataFile[ \t]+Version[ \t]+\S+[ \t]*",
                        lines[0]), "header line"
    assert len(lines[1]) <= 255 and "\n" not in lines[1], "title longer than 255 characters"
    assert lines[2].strip() == "ASCII", "ASCII line"
    assert lines[3].split() == ["DATASET", "POLYDATA"], "DATASET line"
    m = re.fullmatch(r"POINTS (\d+) (\S+)", lines[4])
    assert m and m[2] == "float", "POINTS line"
    n = int(m[1])
    i = 5
    P = [[float(x) for x in lines[i + k].split()] for k in range(n)]
    assert all(len(p) == 3 for p in P), "point rows"
    i += n
    m = re.fullmatch(r"POLYGONS (\d+) (\d+)", lines[i])
    assert m, "POLYGONS line"
    mm = int(m[1])
    assert int(m[2]) == 4 * mm, "POLYGONS size"
    i += 1
    F = [[int(x) for x in lines[i + k].split()] for k in range(mm)]
    assert all(len(f) == 4 and f[0] == 3 for f in F), "polygon rows"
    i += mm
    attrs = {}
    if i < len(lines) and lines[i].startswith("POINT_DATA"):
        assert int(lines[i].split()[1]) == n, "POINT_DATA count"
        i += 1
        while i < len(lines) and lines[i].startswith("SCALARS"):
            parts = lines[i].split()
            assert parts[2] == "float" and len(parts) in (3, 4), "SCALARS line"
            k = int(parts[3]) if len(parts) > 3 else 1
            i += 1
            assert lines[i].split() == ["LOOKUP_TABLE", "default"], "LOOKUP_TABLE line"
            i += 1
            vals = [[float(x) for x in lines[i + j].split()] for j in range(n)]
            assert all(len(r) == k for r in vals), "attribute rows"
            i += n
            attrs[parts[1]] = vals
    assert all(ln == "" for ln in lines[i:]), f"trailing content {lines[i:i + 2]}"
    return P, [f[1:] for f in F], attrs


def run_vtk(case):
    import numpy as np
    from neuroglancer_scripts import mesh as M
    rnd = random.Random(case["seed"])
    g = np.random.default_rng(case["seed"])
    n = rnd.choice([1, 3, 20])
    m = rnd.choice([0, 1, 7])
    V = (g.normal(size=(n, 3)) * 1e5).astype(rnd.choice([np.float32, np.float64]))
    T = g.integers(0, n, size=(m, 3)).astype(rnd.choice([np.int64, np.uint32, np.int32]))
    attrs = []
    for j, k in enumerate(rnd.sample([1, 2, 3, 4], rnd.randint(0, 3))):
        shape = (n,) if k == 1 and rnd.random() < 0.5 else (n, k)
        attrs.append({"name": f"attr{j}", "values": g.normal(size=shape).astype(np.float32)})
    title = rnd.choice(["", "my title", "x" * 300, "tab\there"])
    f = io.StringIO()
    obs = {"vtk_files": 1}
    ctx = f"vtk n={n} m={m} attrs={[a['values'].shape for a in attrs]} title_len={len(title)}"
    try:
        # "an iterable of attributes": a list, a tuple or a one-shot generator
        form = rnd.choice(["list", "list", "tuple", "generator"])
        given = None if not attrs else (attrs if form == "list" else tuple(attrs)
                                        if form == "tuple" else (a for a in attrs))
        obs["attribute_iterables"] = {form: 1} if attrs else {}
        M.save_mesh_as_neuroglancer_vtk(f, V, T, vertex_attributes=given, title=title)
        P, F, A = _parse_vtk(f.getvalue())
    except AssertionError as exc:
        return {"violations": [{"kind": "vtk-output-outside-the-accepted-subset",
                                "detail": f"{ctx}: {exc}"}], "obs": obs}
    except Exception as exc:  # noqa: BLE001
        return {"violations": [{"kind": "vtk-writer-raised",
                                "detail": f"{ctx}: {type(exc).__name__}: {exc}"}], "obs": obs}
    v = []
    if not (np.array_equal(np.array(P, dtype=np.float32).reshape(n, 3), V.astype(np.float32))
            and np.array_equal(np.array(F).reshape(m, 3), T)
            and set(A) == {a["name"] for a in attrs}):
        v.append({"kind": "vtk-content-differs", "detail": ctx})
    for a in attrs:
        if a["name"] not in A:
            continue      # already reported as vtk-content-differs
        want = np.asarray(a["values"], np.float32).reshape(n, -1)
        if not np.array_equal(np.array(A[a["name"]], dtype=np.float32), want):
            v.append({"kind": "vtk-attribute-differs", "detail": f"{ctx}: {a['name']}"})
    return {"violations": v, "obs": obs, "sigs": [ctx + str(case["seed"] % 97)],
            "sample": {"kind": "vtk", "n": n, "m": m, "attrs": len(attrs)}}


# ------------------------------------------------------------------ fragment links

def run_links(case):
    from neuroglancer_scripts.scripts import link_mesh_fragments as lmf
    rnd = random.Random(case["seed"])
    top = tempfile.mkdtemp(prefix="c17l-")
    obs = {"link_tables": 1, "link_files_checked": 0, "labels_beyond_2_53": 0}
    v = []
    try:
        dest = os.path.join(top, "ds")
        os.makedirs(os.path.join(dest, "mesh"))
        info = {"type": "segmentation", "data_type": "uint32", "num_channels": 1, "mesh": "mesh",
                "scales": [{"key": "k", "size": [4, 4, 4], "chunk_sizes": [[4, 4, 4]],
                            "encoding": "raw", "resolution": [1, 1, 1],
                            "voxel_offset": [0, 0, 0]}]}
        with open(os.path.join(dest, "info"), "w") as f:
            json.dump(info, f)
        table = {}
        for _ in range(rnd.randint(1, 8)):
            lab = rnd.choice([0, 1, 7, 42, 1000, 2 ** 32 - 1, rnd.randrange(10 ** 6),
                              2 ** 53 + 1, 2 ** 63 + 3, 2 ** 64 - 1, rnd.getrandbits(64),
                              2 ** 53 + 2 * rnd.randrange(1000) + 1])
            table[lab] = [rnd.choice(["fragA", "lh.pial", "b c", "frag,comma", "x" * 40,
                                      "cortex_seg.gz", "fragz.gz", "a.gz", "v1.2..gz"])
                          for _ in range(rnd.randint(0, 4))]
        obs["labels_beyond_2_53"] = int(any(lab > 2 ** 53 for lab in table))
        csv_path = os.path.join(top, "t.csv")
        with open(csv_path, "w", newline="") as f:
            w = csv.writer(f)
            for lab, frags in table.items():
                w.writerow([lab] + frags)
        nocolon = rnd.random() < 0.4
        gz = rnd.random() < 0.5
        argv = ["link-mesh-fragments", csv_path, dest]
        if nocolon:
            argv.append("--no-colon-suffix")
        if not gz:
            argv.append("--no-gzip")
        ctx = f"links labels={list(table)} no_colon={nocolon}"
        try:
            rc = lmf.main(argv)
        except BaseException as exc:  # noqa: BLE001
            return {"violations": [{"kind": "linker-raised",
                                    "detail": f"{ctx}: {type(exc).__name__}: {exc}"}],
                    "obs": obs}
        want_files = {}
        for lab, frags in table.items():
            want_files[f"{lab}" if nocolon else f"{lab}:0"] = frags
        found = {}
        for name in os.listdir(os.path.join(dest, "mesh")):
            with open(os.path.join(dest, "mesh", name), "rb") as f:
                raw = f.read()
            if name.endswith(".gz"):
                import gzip
                raw = gzip.decompress(raw)
                name = name[:-3]
            found[name] = raw
        if rc not in (0, None) or set(found) != set(want_files):
            v.append({"kind": "link-files-differ-from-table",
                      "detail": f"{ctx}: files {sorted(found)} expected {sorted(want_files)}"})
        for name, frags in want_files.items():
            if name in found:
                obs["link_files_checked"] += 1
                try:
                    doc = json.loads(found[name])
                except Exception:  # noqa: BLE001
                    doc = None
                if doc != {"fragments": frags}:
                    v.append({"kind": "link-file-content-differs",
                              "detail": f"{ctx}: {name}: {found[name][:80]!r} expected "
                              f"fragments {frags}"})
        if not v and case["seed"] % 2 == 0:
            # the same table linked once more (accepted or refused): the files still list
            # exactly the fragments given
            try:
                rc2 = lmf.main(argv)
            except BaseException as exc:  # noqa: BLE001
                rc2 = type(exc).__name__
            obs["second_runs"] = 1
            found2 = {}
            for name in os.listdir(os.path.join(dest, "mesh")):
                with open(os.path.join(dest, "mesh", name), "rb") as f:
                    raw = f.read()
                if name.endswith(".gz"):
                    import gzip
                    raw = gzip.decompress(raw)
                    name = name[:-3]
                found2[name] = raw
            if found2 != found:
                v.append({"kind": "link-files-lost-or-changed-by-a-second-run",
                          "detail": f"{ctx}: second run ended with {rc2!r}; files now "
                          f"{sorted(found2)}, were {sorted(found)}"})
    finally:
        shutil.rmtree(top, ignore_errors=True)
    return {"violations": v[:3], "obs": obs, "sigs": [f"links|{case['seed']}"],
            "sample": {"kind": "links", "labels": list(table), "no_colon": nocolon}}


def run_case(case):
    return {"layout": run_layout, "affine": run_affine, "gifti": run_gifti, "vtk": run_vtk,
            "links": run_links}[case["kind"]](case)


def gates(obs, tier):
    calls = obs.get("calls", {})
    return {
        "all_entry_points_reached": all(calls.get(k, 0) > 0 for k in REACH),
        "reader_rejections_and_acceptances": obs.get("reader_rejected", 0) > 500
        and obs.get("reader_accepted", 0) > 100,
        "noncontiguous_vertex_arrays": obs.get("noncontiguous", 0) > 50,
        "mirroring_transforms": obs.get("mirroring", 0) > 100,
        "small_determinants": obs.get("small_det", 0) > 20,
        "gifti_files_listing_triangles_first": obs.get("gifti_triangles_before_points", 0) > 20,
        "vertex_attributes_given_as_generators": obs.get("attribute_iterables", {}).get(
            "generator", 0) > 50,
        "integer_typed_vertex_arrays": obs.get("integer_typed_vertices", 0) > 100,
        "triangles_checked": obs.get("triangles_checked", 0) > 1000,
        "gifti_with_transform": obs.get("with_transform", 0) > 5,
        "gifti_triangles_in_three_numeric_types": len(obs.get("gifti_triangle_types", {})) == 3,
        "link_files_checked": obs.get("link_files_checked", 0) > 50,
        "big_endian_mesh_arrays": obs.get("big_endian_arrays", 0) > 20,
        "segment_labels_beyond_2_53": obs.get("labels_beyond_2_53", 0) > 0,
        "meshes_with_more_than_65535_vertices": obs.get("meshes_beyond_65535_vertices", 0) > 0,
    }
