"""C11 — data-type conversion rounds to nearest and saturates, never wraps.

Monitor: array returned by the transformer from get_chunk_dtype_transformer, compared
element by element with refs/dtype_exact.py; bytes of the input buffer before/after.
"""
import itertools
import math
import random
from fractions import Fraction

from harness.refs import dtype_exact as dx

PROPERTY = "C11"
LEVEL = "exploration"
IN_TYPES = ["int8", "int16", "int32", "int64", "uint8", "uint16", "uint32", "uint64",
            "float32", "float64"]
OUT_TYPES = ["uint8", "uint16", "uint32", "uint64", "float32"]
LAYOUTS = ["C", "F", "strided", "readonly", "zerod", "empty", "byteswapped"]
RULE = ("case = (input type, output type, preserve_input, array layout, value seed); values "
        "= type limits, limits±1, target limits ±{1, 0.5, 0.4999}, half-integer ties (small "
        "and large, both parities), 2^24 / 2^53 neighbours, values beyond the target range "
        "(incl. 2^63, 2^64, 1e30), random magnitudes; every element is compared with the "
        "exact reference.  distinct = (case, value); non-trivial = input type != output type")
ASSUMPTIONS = [
    "finite values only (the statement quantifies over finite values)",
    "float32 targets beyond the float32 range: +-inf and +-largest finite are both accepted "
    "(the statement's 'maximum' is ambiguous for floats)"]
MANIFEST = {
    "level_text": "Reference-model monitoring of the real transformer: every element of "
    "every returned array is compared with an exact integer/rational model for all 10x5 "
    "type pairs, both buffer-reuse modes and seven array layouts (contiguous, Fortran, "
    "strided, read-only, 0-d, empty, byte-swapped), with values aimed at limits, ties and "
    "the 2^24 / 2^53 / 2^64 edges; input bytes are compared before/after when the input "
    "must be preserved.  Exploration over generated inputs, not a proof.",
    "level_note": "Trusted: harness/refs/dtype_exact.py (Python int / Fraction arithmetic). "
    "The recorded uint64-through-float64 mechanism is tolerated only for values that "
    "satisfy its predicate.",
    "technique": "runtime monitoring: outputs of the real conversion function checked "
    "element-wise against an exact rational reference model; input-buffer integrity monitor",
    "design_ref": "DESIGN.md section 2, C11",
}
REACH = ["get_chunk_dtype_transformer", "chunk_transformer"]
WORKER_TIMEOUT = {"quick": 600, "thorough": 3600}
KF = "C11-uint64-through-float64"
_SHARED = {}


def gen_cases(tier, seed):
    rnd = random.Random(f"C11:{seed}")
    reps = 12 if tier == "quick" else 300
    cases = []
    for rep in range(reps):
        for i, o, pres, lay in itertools.product(IN_TYPES, OUT_TYPES, (True, False), LAYOUTS):
            cases.append({"in": i, "out": o, "preserve": pres, "layout": lay,
                          "vseed": rnd.randrange(2 ** 32),
                          "n": 96 if tier == "quick" else 256,
                          # every third repetition: all values inside the target range but
                          # ONE value at or just beyond a range limit (whole-array min/max
                          # shortcuts see a chunk that "almost fits")
                          "narrow": rep % 3 == 1})
    # directed: large arrays (size-dependent code paths), 12 * 6000 elements
    for i, o in itertools.product(IN_TYPES, OUT_TYPES):
        if rnd.random() < (0.25 if tier == "quick" else 1.0):
            cases.append({"in": i, "out": o, "preserve": rnd.random() < 0.5,
                          "layout": rnd.choice(["C", "F", "strided", "readonly"]),
                          "vseed": rnd.randrange(2 ** 32), "n": 72000, "large": True})
    # directed: more than 2^20 elements in non-contiguous layouts (vectorised integer oracle)
    for i, o in (("int16", "uint8"), ("int32", "uint16"), ("uint16", "uint8"),
                 ("float32", "uint8"), ("float64", "uint16"), ("uint8", "float32"),
                 ("int64", "uint32"), ("float32", "uint32")):
        for lay in ("F", "T", "C"):
            if tier == "quick" and rnd.random() < 0.5:
                continue
            cases.append({"in": i, "out": o, "preserve": rnd.random() < 0.5, "layout": lay,
                          "vseed": rnd.randrange(2 ** 32), "huge": True,
                          "shape": rnd.choice([[70, 130, 130], [128, 128, 65]])})
    return cases


def _narrow_values(case, rnd, tlo, thi):
    i = case["in"]
    n = case["n"]
    if i in dx.INT_RANGE:
        lo, hi = dx.INT_RANGE[i]
        a, b = max(lo, tlo), min(hi, thi)
        vals = [rnd.randint(a, b) if rnd.random() < 0.7 else rnd.choice([a, b, a + 1, b - 1])
                for _ in range(n)]
        vals = [min(max(x, a), b) for x in vals]
        ext = [c for c in (tlo - 1, thi + 1, tlo - 2, thi + 2, lo, hi, tlo, thi)
               if lo <= c <= hi]
        vals[rnd.randrange(n)] = rnd.choice(ext)
        return vals
    conv = dx.f32 if i == "float32" else float
    vals = []
    for _ in range(n):
        k = rnd.random()
        if k < 0.4:
            x = rnd.uniform(tlo, thi)
        elif k < 0.7:
            x = rnd.randint(tlo, max(tlo, min(thi, 2 ** 22)) - 1) + 0.5 if thi > tlo else tlo
        else:
            x = float(rnd.randint(tlo, thi))
        x = conv(x)
        if not (tlo <= x <= thi):
            x = float(tlo)
        vals.append(x)
    ext = [thi + 1, thi + 0.5, thi + 0.49, thi + 0.51, tlo - 1, tlo - 0.5, tlo - 0.51,
           tlo - 0.49, float(thi), float(tlo), thi * (1 + 2.0 ** -23), thi * (1 + 2.0 ** -52),
           2.0 * thi + 2]
    e = conv(rnd.choice(ext))
    vals[rnd.randrange(n)] = e
    return vals


def _values(case):
    rnd = random.Random(case["vseed"])
    i, o = case["in"], case["out"]
    vals = []
    if o in dx.INT_RANGE:
        tlo, thi = dx.INT_RANGE[o]
    else:
        tlo, thi = 0, 2 ** 24
    if case.get("narrow") and o in dx.INT_RANGE:
        return _narrow_values(case, rnd, tlo, thi)
    if i in dx.INT_RANGE:
        lo, hi = dx.INT_RANGE[i]
        cand = [lo, lo + 1, hi, hi - 1, 0, 1, 2, -1, -2, tlo, tlo - 1, tlo + 1, thi, thi - 1,
                thi + 1, thi + 2, 2 ** 24, 2 ** 24 + 1, 2 ** 24 - 1, 2 ** 25 + 1, 2 ** 53,
                2 ** 53 + 1, 2 ** 53 - 1, 2 ** 53 + 3, 2 ** 62 + 1, 2 ** 63 - 1, 2 ** 63 + 1,
                -2 ** 24 - 1, -2 ** 53 - 1, 2 ** 31, 2 ** 32, 2 ** 32 + 1, 255, 256, 65535,
                65536, 16777217, 33554431, 2 ** 60 + 2 ** 36 + 1, 2 ** 40 + 2 ** 16 + 1]
        vals = [c for c in cand if lo <= c <= hi]
        while len(vals) < case["n"]:
            b = rnd.choice([3, 7, 8, 9, 15, 16, 17, 24, 25, 31, 32, 33, 52, 53, 54, 63, 64])
            x = rnd.getrandbits(b)
            if lo < 0 and rnd.random() < 0.4:
                x = -x
            if lo <= x <= hi:
                vals.append(x)
        return vals
    # floating-point inputs
    cand = [0.0, -0.0, 0.5, 1.5, 2.5, 3.5, -0.5, -1.5, 0.49999, 0.50001, 1.4999999,
            254.5, 255.5, 255.49, 255.5000001, 256.0, 65534.5, 65535.5, 65535.49, 65536.0,
            2.0 ** 22 + 0.5, 2.0 ** 22 + 1.5, 2.0 ** 23 + 1, 2.0 ** 24, 2.0 ** 24 + 1,
            2.0 ** 24 + 2, 2.0 ** 31 - 0.5, 2.0 ** 31 + 0.5, 2.0 ** 32 - 1.5, 2.0 ** 32 - 0.5,
            2.0 ** 32 - 1, 2.0 ** 32, 2.0 ** 32 + 0.5, 2.0 ** 33, 2.0 ** 52 + 0.5,
            2.0 ** 52 + 1.5, 2.0 ** 53, 2.0 ** 53 + 2, 2.0 ** 63, 2.0 ** 63 + 2048,
            2.0 ** 64 - 2048, 2.0 ** 64, 2.0 ** 65, 1e30, -1e30, -1.0, -0.4999, -2.0 ** 31,
            -2.0 ** 63, 1e-30, -1e-30, 3.4028234663852886e38, 3.4028235677973366e38, 1e39,
            1.1754943508222875e-38, 1e-45, 7e-46, 123456.789, 0.1]
    for t in (tlo, thi):
        for d in (-1, -0.5, -0.4999, 0, 0.4999, 0.5, 1):
            cand.append(float(t) + d)
    vals = list(cand)
    while len(vals) < case["n"]:
        kind = rnd.random()
        if kind < 0.35:  # ties
            k = rnd.getrandbits(rnd.choice([2, 4, 8, 12, 16, 20, 22, 30, 40, 51]))
            vals.append(k + 0.5 if rnd.random() < 0.8 else -(k + 0.5))
        elif kind < 0.7:
            vals.append(rnd.uniform(-2, 2) * 2.0 ** rnd.randint(-3, 70))
        else:
            vals.append(float(rnd.getrandbits(rnd.choice([8, 16, 32, 53, 64]))) +
                        rnd.choice([0, 0.25, 0.5, 0.75]))
    if i == "float32":
        out = []
        for v in vals:
            try:
                out.append(dx.f32(v))
            except OverflowError:
                out.append(dx.F32_MAX if v > 0 else -dx.F32_MAX)
        vals = out
    return vals


def _build(np, case, vals):
    """-> (array handed to the transformer, function returning the bytes that must not
    change, list of values in C iteration order of the array)"""
    dt = np.dtype(case["in"])
    lay = case["layout"]
    if lay == "empty":
        a = np.zeros((0, 3, 0, 1), dtype=dt)
        return a, (lambda: a.tobytes()), []
    if lay == "zerod":
        a = np.array(vals[0], dtype=dt)
        return a, (lambda: a.tobytes()), [vals[0]]
    n = (len(vals) // 12) * 12
    vals = vals[:n]
    base = np.array(vals, dtype=dt).reshape(2, 3, 2, n // 12)
    if lay == "C":
        a = base
        keep = base
    elif lay == "F":
        a = np.asfortranarray(base)
        keep = a
    elif lay == "strided":
        big = np.zeros((2, 3, 2, 2 * (n // 12) + 1), dtype=dt)
        big[..., 1::2] = base
        a = big[..., 1::2]
        keep = big
    elif lay == "readonly":
        buf = base.tobytes()
        a = np.frombuffer(buf, dtype=dt).reshape(base.shape)
        keep = a
    elif lay == "byteswapped":
        a = base.astype(dt.newbyteorder(">" if dt.byteorder in ("<", "=", "|") else "<"))
        keep = a
    return a, (lambda: keep.tobytes()), [v for v in base.ravel().tolist()]


def run_huge(case):
    import numpy as np
    from neuroglancer_scripts.data_types import get_chunk_dtype_transformer
    g = np.random.default_rng(case["vseed"])
    i, o = case["in"], case["out"]
    shape = tuple(case["shape"])
    # values are multiples of 0.5 (floats) or plain integers: exact in every type involved
    lo, hi = dx.INT_RANGE[o] if o in dx.INT_RANGE else (0, 255)
    twice = g.integers(2 * lo - 600, 2 * hi + 600, size=shape, dtype=np.int64)
    if i in dx.INT_RANGE:
        ilo, ihi = dx.INT_RANGE[i]
        src = np.clip(twice // 2, ilo, ihi)
        twice = src * 2
        base = src.astype(i)
    else:
        twice = np.clip(twice, -2 ** 24, 2 ** 24) if i == "float32" else twice
        base = (twice / 2.0).astype(i)
    if case["layout"] == "F":
        a = np.asfortranarray(base)
    elif case["layout"] == "T":
        a = np.ascontiguousarray(base.transpose(2, 1, 0)).transpose(2, 1, 0)
    else:
        a = base
    obs = {"elements": int(a.size), "huge_arrays": 1, "pairs": {f"{i}->{o}": 1},
           "layouts": {case["layout"]: 1}, "preserve_true": int(case["preserve"]),
           "preserve_false": int(not case["preserve"])}
    before = a.tobytes() if case["preserve"] else None
    try:
        tr = get_chunk_dtype_transformer(np.dtype(i), np.dtype(o), warn=False)
        res = np.asarray(tr(a, preserve_input=case["preserve"]))
    except Exception as exc:  # noqa: BLE001
        return {"violations": [{"kind": "conversion-raised", "detail":
                                f"{i}->{o} {shape} layout={case['layout']}: "
                                f"{type(exc).__name__}: {exc}"}], "obs": obs}
    v = []
    if case["preserve"] and a.tobytes() != before:
        v.append({"kind": "input-modified", "detail": f"{i}->{o} {shape} huge array"})
    if o in dx.INT_RANGE:
        q, r = np.divmod(twice, 2)
        want = np.clip(q + ((r == 1) & (q % 2 == 1)), lo, hi)
    else:
        want = twice / 2.0
    if res.shape != shape or res.dtype != np.dtype(o) or not np.array_equal(
            res.astype(np.float64) if o == "float32" else res.astype(np.int64), want):
        nbad = int((res.astype(np.float64) != want.astype(np.float64)).sum()) \
            if res.shape == shape else -1
        v.append({"kind": "wrong-value", "detail":
                  f"{i}->{o} preserve={case['preserve']} layout={case['layout']} shape "
                  f"{shape}: {nbad} of {want.size} elements differ from the exact reference"})
    return {"violations": v, "obs": obs, "evals": int(a.size), "distinct_disjoint": 1,
            "sample": {"in": i, "out": o, "layout": case["layout"], "shape": list(shape)}}


def run_case(case):
    if case.get("huge"):
        return run_huge(case)
    import numpy as np
    from neuroglancer_scripts.data_types import get_chunk_dtype_transformer
    vals = _values(case)
    i, o = case["in"], case["out"]
    a, snapshot, flat = _build(np, case, vals)
    # the exact values really held by the array (Python ints / floats)
    flat = [int(v) if i in dx.INT_RANGE else float(v) for v in flat]
    before = snapshot()
    v = []
    obs = {"elements": 0, "ties": 0, "saturated": 0, "exact_preserved": 0,
           "pairs": {f"{i}->{o}": 1}, "layouts": {case["layout"]: 1},
           "preserve_true": int(case["preserve"]), "preserve_false": int(not case["preserve"]),
           "large_arrays": int(bool(case.get("large"))),
           "arrays_with_a_single_value_at_a_range_limit": int(bool(case.get("narrow")))}
    try:
        # conversion loops create one transformer and call it for every chunk: half of the
        # cases share one transformer per type pair for the life of the worker
        if case["vseed"] % 2 == 0:
            if (i, o) not in _SHARED:
                _SHARED[(i, o)] = get_chunk_dtype_transformer(np.dtype(i), np.dtype(o),
                                                              warn=False)
            tr = _SHARED[(i, o)]
            obs["shared_transformer_calls"] = 1
        else:
            tr = get_chunk_dtype_transformer(np.dtype(i), np.dtype(o), warn=False)
        with np.errstate(all="ignore"):
            res = tr(a, preserve_input=case["preserve"])
    except Exception as exc:  # noqa: BLE001
        return {"violations": [{"kind": "conversion-raised",
                                "detail": f"{i}->{o} preserve={case['preserve']} "
                                f"layout={case['layout']}: {type(exc).__name__}: {exc}"}],
                "evals": max(1, len(flat)), "obs": obs}
    if case["preserve"] and snapshot() != before:
        v.append({"kind": "input-modified",
                  "detail": f"{i}->{o} layout={case['layout']}: input bytes changed although "
                  "preserve_input=True"})
    res = np.asarray(res)
    if res.dtype != np.dtype(o) or res.shape != a.shape:
        v.append({"kind": "wrong-dtype-or-shape",
                  "detail": f"{i}->{o}: got {res.dtype} {res.shape}, want {o} {a.shape}"})
        return {"violations": v, "evals": max(1, len(flat)), "obs": obs}
    got = res.ravel().tolist()
    if case["vseed"] % 4 == 0 and not case.get("large"):
        # a conversion loop that keeps its results (results = [t(c) for c in chunks]): a
        # later call of the same transformer on another chunk of the same shape leaves the
        # earlier result as it was
        held = res.tobytes()
        other = np.ascontiguousarray(np.asarray(a).ravel()[::-1]).reshape(a.shape)
        try:
            with np.errstate(all="ignore"):
                res2 = tr(other, preserve_input=True)
            obs["later_calls_with_earlier_result_held"] = 1
            if res.tobytes() != held:
                v.append({"kind": "earlier-result-changed-by-a-later-conversion",
                          "detail": f"{i}->{o} preserve={case['preserve']} "
                          f"layout={case['layout']}: the array returned by the first call "
                          "changed when the same transformer converted another chunk of the "
                          "same shape"})
            del res2
        except Exception as exc:  # noqa: BLE001
            v.append({"kind": "conversion-raised",
                      "detail": f"{i}->{o} second call of the same transformer: "
                      f"{type(exc).__name__}: {exc}"})
    for x, g in zip(flat, got):
        obs["elements"] += 1
        if o in dx.INT_RANGE:
            want = dx.to_int_type(x, o)
            lo, hi = dx.INT_RANGE[o]
            if isinstance(x, float) and Fraction(x).denominator == 2:
                obs["ties"] += 1
            if want in (lo, hi) and not lo <= x <= hi:
                obs["saturated"] += 1
            if want == x:
                obs["exact_preserved"] += 1
            ok = (int(g) == want)
        else:
            acc = dx.nearest_float32(x)
            ok = float(g) in acc
            if float(x) in acc:
                obs["exact_preserved"] += 1
            if any(math.isinf(t) for t in acc):
                obs["saturated"] += 1
        if not ok:
            viol = {"kind": "wrong-value",
                    "detail": f"{i}->{o} preserve={case['preserve']} layout={case['layout']}: "
                    f"value {x!r} gave {g!r}, exact reference "
                    f"{want if o in dx.INT_RANGE else sorted(acc)!r}"}
            if o == "uint64" and (
                    (i == "int64" and abs(x) > 2 ** 53)
                    or (isinstance(x, float) and x >= 2.0 ** 64)):
                viol["known"] = KF
            v.append(viol)
            if len(v) > 12:
                break
    return {"violations": v, "evals": max(1, len(flat)),
            "distinct_disjoint": len(set(flat)) if i != o else 0, "obs": obs,
            "sample": {"in": i, "out": o, "preserve_input": case["preserve"],
                       "layout": case["layout"], "values": [repr(x) for x in flat[:8]]}}


def gates(obs, tier):
    calls = obs.get("calls", {})
    return {
        "transformer_reached": calls.get("get_chunk_dtype_transformer", 0) > 0
        and obs.get("elements", 0) > 0,
        "all_type_pairs": len(obs.get("pairs", {})) == len(IN_TYPES) * len(OUT_TYPES),
        "all_layouts": all(k in obs.get("layouts", {}) for k in LAYOUTS),
        "both_reuse_modes": obs.get("preserve_true", 0) > 0 and obs.get("preserve_false", 0) > 0,
        "ties_seen": obs.get("ties", 0) > 100,
        "saturation_seen": obs.get("saturated", 0) > 100,
        "arrays_of_tens_of_thousands_of_elements": obs.get("large_arrays", 0) > 3,
        "arrays_beyond_2_20_elements": obs.get("huge_arrays", 0) > 3,
        "later_calls_with_earlier_result_held": obs.get(
            "later_calls_with_earlier_result_held", 0) > 200,
        "arrays_with_a_single_value_at_a_range_limit": obs.get(
            "arrays_with_a_single_value_at_a_range_limit", 0) > 500,
    }
