"""C18 — I/O failures and interrupted writes never yield silently wrong data.

Fault enumeration: for each driven operation a dry run under the I/O interposition layer
(harness/monitors/iohook.py) counts the I/O calls K it makes; then for EVERY k <= K and every
errno plausible for that call the operation is re-executed on a fresh, identically prepared
dataset with the fault injected at call k.  Crash enumeration: the same call positions,
before and after each call, end the (forked) process with os._exit.  A fresh reader then
classifies everything.  HTTP faults are driven through the loopback server.
"""
import errno
import json
import os
import random
import shutil
import tempfile

from harness import httpd, shardlib
from harness.monitors import iohook

PROPERTY = "C18"
LEVEL = "fault_enumeration"
RULE = ("case = (scenario, operation): FileAccessor under flat|deep x gzip on/off: store_chunk "
        "(new / overwrite / overwrite refused), fetch_chunk (existing / missing), store_file "
        "(nested name), fetch_file, file_exists, dataset creation + write_chunk through "
        "PrecomputedIO (raw and compressed_segmentation); ShardedFileAccessor under both "
        "buffering strategies x raw|gzip shard encodings: store chunks (out of order) + "
        "close, fetch_chunk through a fresh accessor, file operations.  For each case EVERY "
        "I/O call position k of the operation x every plausible errno (fault runs) and every "
        "position x {before, after} (crash runs in a forked process) is executed; write-side "
        "operations also run under nine kernel file-size limits (RLIMIT_FSIZE: real short "
        "writes + EFBIG).  Plus HTTP fault scripts, and system-call faults (ENOSPC / EACCES / "
        "EIO on reads) and SIGKILLs injected with strace into the real volume-to-precomputed, "
        "compute-scales and convert-chunks processes.  distinct = (case, k, errno) resp. (case, k, when); non-trivial = "
        "the fault or crash really fired")
ASSUMPTIONS = [
    "the repository is pure Python: all its file-system effects go through the interposed "
    "entry points (open/io.open, os.open/stat/lstat/mkdir/unlink/rename/replace/rmdir/"
    "listdir/scandir and read/write/flush/close of the files it opens)",
    "outcome-based oracle: under an injected fault the call either raises DataAccessError / "
    "an OSError subclass, or returns normally with a result and an on-disk effect identical "
    "to the fault-free execution (a failing probe that the code legitimately absorbs)",
    "a crash is os._exit in a forked process: no finally/__exit__/atexit, Python-level "
    "buffers lost; tearing inside one write() is modelled separately by cutting each file "
    "the operation wrote at sampled byte offsets; power-loss reordering is not modelled",
    "an overwrite that fails or is interrupted may damage the name being overwritten; all "
    "other names must survive unchanged"]
MANIFEST = {
    "level_text": "Fault and crash-point enumeration over the I/O call sites of the real "
    "storage operations: every I/O call a driven operation makes (counted by a dry run "
    "under Python-level interposition) is failed in turn with each plausible errno, and the "
    "process is killed before and after each call; the oracle accepts only a data-access / "
    "I/O error or an effect identical to the fault-free run, requires everything stored "
    "earlier to read back unchanged, and requires a fresh reader after a crash to find each "
    "chunk complete-and-equal, absent or detectably invalid - never different voxel values. "
    "Exhaustive over the call positions of the driven operations, not over all operations "
    "or all datasets.",
    "level_note": "Trusted: harness/monitors/iohook.py intercepts all I/O of the pure-Python "
    "code under test - cross-checked in every run at system-call level (strace) by a "
    "completeness audit, and complemented by (a) real kernel short writes under RLIMIT_FSIZE "
    "and (b) strace inject= faults and SIGKILLs around the real volume-to-precomputed, "
    "compute-scales and convert-chunks processes, on plain and on SHARDED scales (sampled call "
    "positions); faults inside "
    "Pillow/nibabel and OS-level reordering after power loss are out of reach.",
    "technique": "runtime fault injection and crash-point enumeration at interposed I/O "
    "calls (Python level), under kernel resource limits (RLIMIT_FSIZE) and at system calls "
    "(strace inject= errors and SIGKILL on the real command processes), with an outcome-based "
    "oracle and a fresh-reader audit",
    "design_ref": "DESIGN.md section 2, C18",
}
REACH = ["FileAccessor.store_chunk", "FileAccessor.fetch_chunk", "FileAccessor.store_file",
         "FileAccessor.fetch_file", "FileAccessor.file_exists", "Shard.close",
         "MiniShard.store_cmc_chunk", "ShardedFileAccessor.fetch_chunk", "Shard.read_bytes"]
WORKER_TIMEOUT = {"quick": 1500, "thorough": 7200}
CASE_TIMEOUT = 900
EXHAUSTIVE = {"quick": True, "thorough": True}
COORDS = [(x, x + 4, y, min(y + 4, 6), 0, 4) for x in (0, 4) for y in (0, 4)]
NEW = (8, 10, 0, 4, 0, 4)
SHCFG = {"grid": [3, 2, 1], "chunk": 4, "rem": [1, 1, 3]}


def worker_init():
    # environment variables that tools commonly honour are set (reproducible-build time
    # stamp, a non-default locale): the guarantees do not depend on them
    import os
    os.environ.setdefault("SOURCE_DATE_EPOCH", "1700000000")
    os.environ.setdefault("LC_ALL", "C")


def gen_cases(tier, seed):
    cases = []
    for flat in (False, True):
        for gz in (False, True):
            for op in ("store_chunk_new", "store_chunk_overwrite", "store_chunk_refused",
                       "fetch_chunk", "fetch_chunk_missing", "store_file", "fetch_file",
                       "file_exists", "file_exists_missing", "file_exists_gz"):
                cases.append({"kind": "file", "flat": flat, "gzip": gz, "op": op,
                              "encoding": "raw"})
            for enc in ("raw", "compressed_segmentation"):
                cases.append({"kind": "file", "flat": flat, "gzip": gz, "op": "create+write",
                              "encoding": enc})
    for strategy in ("on disk", "in memory"):
        for senc in ("raw", "gzip"):
            for op in ("store+close", "rewrite+close", "fetch_chunk", "file_ops"):
                for enc in (("raw", "compressed_segmentation") if op == "store+close"
                            else ("raw",)):
                    cases.append({"kind": "sharded", "strategy": strategy, "shard_enc": senc,
                                  "op": op, "encoding": enc})
    # lossy chunks: JPEG files are stored as they are (never gzipped), so a partial file is
    # a truncated JPEG stream
    for flat in (False, True):
        for op in ("store_chunk_new", "create+write", "fetch_chunk"):
            cases.append({"kind": "file", "flat": flat, "gzip": True, "op": op,
                          "encoding": "jpeg"})
    # a directory converted twice, with gzip first and without afterwards: outdated .gz
    # variants lie next to the current files
    for flat in (False, True):
        for op in ("fetch_chunk", "fetch_file", "file_exists_gz", "store_chunk_overwrite"):
            cases.append({"kind": "file", "flat": flat, "gzip": False, "op": op,
                          "encoding": "raw", "stale_gz": True})
    # a scale spread over six shard files (one chunk each): the close of the scale writes
    # them one after the other, and a failure in any of them must surface
    for strategy in ("on disk", "in memory"):
        for op in ("store+close", "rewrite+close"):
            cases.append({"kind": "sharded", "strategy": strategy, "shard_enc": "raw",
                          "op": op, "encoding": "raw", "minishard_bits": 0, "shard_bits": 3})
    rnd = random.Random(f"C18:{seed}")
    if tier == "thorough":
        # the same enumeration on other dataset geometries / payloads
        for k in range(30):
            base = dict(rnd.choice(cases[:78]))
            base["variant"] = rnd.randrange(1, 2 ** 16)
            cases.append(base)
    # cases that start threads / child processes come last (the storage cases fork)
    tail = [{"kind": "strace"}]
    for k in range(4 if tier == "quick" else 40):
        tail.append({"kind": "http", "dseed": rnd.randrange(2 ** 32), "sharded": k % 2 == 1,
                     "userinfo": k % 4 in (0, 1)})
    for k in range(2 if tier == "quick" else 8):
        tail.append({"kind": "strace_cli", "seed": rnd.randrange(2 ** 32),
                     "gzip": k % 2 == 0, "max_points": 10 if tier == "quick" else 60})
    for k in range(2 if tier == "quick" else 12):
        tail.append({"kind": "strace_pipeline", "seed": rnd.randrange(2 ** 32),
                     "command": ("scales", "convert")[k % 2], "gzip": k % 4 < 2,
                     "max_points": 12 if tier == "quick" else 60})
    # the same commands writing SHARDED scales (the shard files are written when the
    # accessor is closed - at the latest by its exit handler)
    for k in range(2 if tier == "quick" else 8):
        tail.append({"kind": "strace_pipeline", "seed": rnd.randrange(2 ** 32),
                     "command": ("convert", "scales")[k % 2], "gzip": False, "sharded": True,
                     "max_points": 12 if tier == "quick" else 40})
    return cases + tail


# --------------------------------------------------------------------------- scenarios

def _info(case, sharding=None):
    sc = {"key": "k", "size": [10, 6, 4], "chunk_sizes": [[4, 4, 4]], "resolution": [1, 1, 1],
          "voxel_offset": [0, 0, 0], "encoding": case["encoding"]}
    if case["encoding"] == "compressed_segmentation":
        sc["compressed_segmentation_block_size"] = [2, 2, 2]
    scales = [sc]
    if sharding:
        sc["sharding"] = dict(sharding)
        sc2 = json.loads(json.dumps(sc))
        sc2["key"] = "k_old"
        scales = [sc, sc2]
    return {"type": "image", "data_type": "uint8" if case["encoding"] == "jpeg" else "uint32",
            "num_channels": 1, "scales": scales}


_JPEG = [False]      # set by the scenario under construction


def _arr(np, coords, salt):
    shape = (1, coords[5] - coords[4], coords[3] - coords[2], coords[1] - coords[0])
    g = np.random.default_rng(abs(hash((coords, salt))) % 2 ** 32)
    if _JPEG[0]:
        # one grey level per chunk, far from mid-grey: the lossy encoding reproduces a
        # uniform chunk exactly
        return np.full(shape, 16 + 8 * int(g.integers(0, 28)), dtype=np.uint8)
    return g.integers(0, 5, size=shape).astype(np.uint32) * np.uint32(1000 + salt)


class Scenario:
    """Prepares a dataset directory, knows the driven operation and what must survive."""

    def __init__(self, np, case, top):
        self.np, self.case, self.top = np, case, top
        self.d = os.path.join(top, "ds")
        self.variant = case.get("variant", 0)
        _JPEG[0] = case.get("encoding") == "jpeg"

    # -- preparation (outside of the hook)
    def prepare(self):
        from neuroglancer_scripts import file_accessor, precomputed_io, sharded_file_accessor
        np, case = self.np, self.case
        os.makedirs(self.d, exist_ok=True)
        self.model = {}          # ("chunk", key, coords) -> array ; ("file", name) -> bytes
        if case["kind"] == "file":
            self.acc = file_accessor.FileAccessor(self.d, flat=case["flat"],
                                                  gzip=case["gzip"])
            self.info = _info(case)
            if case.get("stale_gz"):
                # the directory was first written with gzip (other contents), then converted
                # again with --no-gzip: every item exists as NAME and as an outdated NAME.gz
                oldacc = file_accessor.FileAccessor(self.d, flat=case["flat"], gzip=True)
                oldpio = precomputed_io.get_IO_for_new_dataset(_info(case), oldacc)
                for c in COORDS[:3]:
                    oldpio.write_chunk(_arr(np, c, 21 + self.variant), "k", c)
                oldacc.store_file("mesh/blob", b"OLDBLOB" * 40)
                os.remove(os.path.join(self.d, "info"))
            if case["op"] != "create+write":
                self.pio = precomputed_io.get_IO_for_new_dataset(self.info, self.acc)
                self.model[("file", "info")] = self.acc.fetch_file("info")
                for c in COORDS[:3]:
                    a = _arr(np, c, 1 + self.variant)
                    self.pio.write_chunk(a, "k", c)
                    self.model[("chunk", "k", c)] = a
                self.acc.store_file("meta/extra.json", b'{"a":1}', mime_type="application/json")
                self.model[("file", "meta/extra.json")] = b'{"a":1}'
                self.acc.store_file("mesh/blob", b"BLOB" * 50)    # gets a .gz suffix with gzip
                self.model[("file", "mesh/blob")] = b"BLOB" * 50
        else:
            spec = {"@type": "neuroglancer_uint64_sharded_v1", "hash": "identity",
                    "minishard_bits": case.get("minishard_bits", 1),
                    "shard_bits": case.get("shard_bits", 0), "preshift_bits": 0,
                    "minishard_index_encoding": case["shard_enc"],
                    "data_encoding": case["shard_enc"]}
            self.info = _info(case, spec)
            # an older scale, written and closed before: must survive everything
            old = sharded_file_accessor.ShardedFileAccessor(self.d, strategy=case["strategy"])
            pio = precomputed_io.get_IO_for_new_dataset(self.info, old)
            self.model[("file", "info")] = old.fetch_file("info")
            for c in self._shard_coords():
                a = _arr(np, c, 7 + self.variant)
                pio.write_chunk(a, "k_old", c)
                self.model[("chunk", "k_old", c)] = a
            if case["op"] != "store+close":
                for c in self._shard_coords():
                    a = _arr(np, c, 3 + self.variant)
                    pio.write_chunk(a, "k", c)
                    self.model[("chunk", "k", c)] = a
            old.close()
            self.acc = sharded_file_accessor.ShardedFileAccessor(
                self.d, strategy=case["strategy"])
            self.pio = precomputed_io.PrecomputedIO(json.loads(json.dumps(self.info)),
                                                    self.acc)
        self.pending = {}        # what the operation tries to store

    def _shard_coords(self):
        cfg = dict(SHCFG)
        pos = sorted(shardlib.all_positions(cfg), key=lambda p: -shardlib.cmc_of(cfg, p))
        if self.variant:
            random.Random(self.variant).shuffle(pos)
        # descending identifiers: every chunk but the last of a minishard is buffered
        return [shardlib.coords_of(cfg, p) for p in pos]

    # -- the driven operation (inside the hook)
    def operate(self):
        from neuroglancer_scripts import precomputed_io
        np, case, op = self.np, self.case, self.case["op"]
        if case["kind"] == "file":
            if op == "store_chunk_new":
                a = _arr(np, NEW, 2)
                self.pending[("chunk", "k", NEW)] = a
                return self.pio.write_chunk(a, "k", NEW)
            if op == "store_chunk_overwrite":
                a = _arr(np, COORDS[1], 9)
                self.pending[("chunk", "k", COORDS[1])] = a
                return self.pio.write_chunk(a, "k", COORDS[1])
            if op == "store_chunk_refused":
                buf = b"\0" * 16
                return self.acc.store_chunk(buf, "k", COORDS[1], overwrite=False)
            if op == "fetch_chunk":
                return self.pio.read_chunk("k", COORDS[2]).tobytes()
            if op == "fetch_chunk_missing":
                return self.pio.read_chunk("k", COORDS[3]).tobytes()
            if op == "store_file":
                self.pending[("file", "mesh/sub/frag:0")] = b"FRAGMENT" * 40
                return self.acc.store_file("mesh/sub/frag:0", b"FRAGMENT" * 40)
            if op == "fetch_file":
                return self.acc.fetch_file("mesh/blob" if case.get("stale_gz")
                                           else "meta/extra.json")
            if op == "file_exists":
                return self.acc.file_exists("info")
            if op == "file_exists_missing":
                return self.acc.file_exists("nothing/here")
            if op == "file_exists_gz":
                return self.acc.file_exists("mesh/blob")
            if op == "create+write":
                pio = precomputed_io.get_IO_for_new_dataset(self.info, self.acc)
                self.pending[("file", "info")] = None
                for c in COORDS:
                    a = _arr(np, c, 4 + self.variant)
                    self.pending[("chunk", "k", c)] = a
                    pio.write_chunk(a, "k", c)
                return None
        else:
            if op == "store+close":
                for c in self._shard_coords():
                    a = _arr(np, c, 5 + self.variant)
                    self.pending[("chunk", "k", c)] = a
                    self.pio.write_chunk(a, "k", c)
                self.phase = "close"       # every chunk has been handed over
                return self.acc.close()
            if op == "rewrite+close":
                # the scale is converted once more into the directory that already holds
                # its shard files (other voxel values this time)
                for c in self._shard_coords():
                    a = _arr(np, c, 11 + self.variant)
                    self.pending[("chunk", "k", c)] = a
                    self.pio.write_chunk(a, "k", c)
                self.phase = "close"
                return self.acc.close()
            if op == "fetch_chunk":
                return [self.pio.read_chunk("k", c).tobytes()
                        for c in self._shard_coords()[:3]]
            if op == "file_ops":
                self.pending[("file", "mesh/frag")] = b"MESH" * 30
                self.acc.store_file("mesh/frag", b"MESH" * 30, overwrite=True)
                return (self.acc.file_exists("mesh/frag"), self.acc.fetch_file("info"))
        raise AssertionError(op)

    # -- fresh-reader audit (outside of the hook)
    def audit(self):
        """-> dict item -> ('ok', digest) | ('error', class) decoded through a FRESH
        accessor obtained the way every script obtains it."""
        from neuroglancer_scripts import accessor as accessor_mod
        from neuroglancer_scripts import precomputed_io
        np = self.np
        out = {}
        opts = {}
        if self.case["kind"] == "file":
            opts = {"flat": self.case["flat"], "gzip": self.case["gzip"]}
        try:
            acc = accessor_mod.get_accessor_for_url(self.d, opts)
            pio = precomputed_io.get_IO_for_existing_dataset(acc)
        except Exception as exc:  # noqa: BLE001
            acc = pio = None
            out["__dataset__"] = ("error", type(exc).__name__)
        items = set(self.model) | set(self.pending)
        for it in items:
            try:
                if it[0] == "file":
                    if acc is None:
                        from neuroglancer_scripts import file_accessor
                        acc2 = file_accessor.FileAccessor(self.d)
                        out[it] = ("ok", bytes(acc2.fetch_file(it[1])))
                    else:
                        out[it] = ("ok", bytes(acc.fetch_file(it[1])))
                else:
                    if pio is None:
                        out[it] = ("error", "no-dataset")
                    else:
                        out[it] = ("ok", np.array(pio.read_chunk(it[1], it[2])))
            except Exception as exc:  # noqa: BLE001
                out[it] = ("error", type(exc).__name__)
        return out


def _same_value(np, a, b):
    if isinstance(a, np.ndarray) or isinstance(b, np.ndarray):
        return isinstance(a, np.ndarray) and isinstance(b, np.ndarray) and \
            a.shape == b.shape and bool((a == b).all())
    return a == b


def _listing(d):
    out = []
    for root, _dirs, files in os.walk(d):
        for f in files:
            out.append(os.path.relpath(os.path.join(root, f), d))
    return sorted(out)


def _same_files(listing, ref):
    """The fault-free run's files are all there, and nothing else lies at a documented name
    (NAME or NAME.gz of one of them).  A leftover under another name - e.g. a temporary file
    whose removal was the call that failed - changes nothing a reader can see."""
    have, want = set(listing), set(ref)
    if not want <= have:
        return False
    documented = want | {n + ".gz" for n in want} | {n[:-3] for n in want if n.endswith(".gz")}
    return not ((have - want) & documented)


def _run_op(np, case, mode, k=None, err=None, when="before", in_child=False):
    """Prepare a fresh dataset, run the operation under the hook.
    -> (outcome, hook, scenario, top)"""
    top = tempfile.mkdtemp(prefix="c18-")
    tmp = os.path.join(top, "tmp")
    os.makedirs(tmp)
    sc = Scenario(np, case, top)
    sc.prepare()
    saved = tempfile.tempdir
    tempfile.tempdir = tmp            # on-disk buffers of the sharded writer land here
    hook = iohook.Hook([top], mode=mode, k=k, err=err, when=when)
    try:
        with hook:
            try:
                res = sc.operate()
                outcome = ("returned", res)
            except BaseException as exc:  # noqa: BLE001
                if isinstance(exc, (KeyboardInterrupt, SystemExit)) or \
                        type(exc).__name__ == "CaseTimeout":
                    raise
                outcome = ("raised", exc)
    finally:
        tempfile.tempdir = saved
    return outcome, hook, sc, top


def run_storage(case):
    import numpy as np
    from neuroglancer_scripts.accessor import DataAccessError
    obs = {"cases": 1, "io_calls_in_dry_run": 0, "fault_runs": 0, "faults_fired": 0,
           "crash_runs": 0, "crashes_fired": 0, "fault_outcomes": {}, "absorbed_faults": 0,
           "crash_classification": {}, "call_kinds": {}, "kinds": {case["kind"]: 1},
           "survivor_checks": 0}
    v = []
    ctx = " ".join(f"{k}={case[k]}" for k in case if k not in ("kind",))
    ctx = f"{case['kind']} {ctx}"
    # ---- dry run
    outcome0, hook0, sc0, top0 = _run_op(np, case, "record")
    K = hook0.n
    events = list(hook0.events)
    obs["io_calls_in_dry_run"] = K
    for _k, op, _p in events:
        obs["call_kinds"][op] = obs["call_kinds"].get(op, 0) + 1
        if os.sep + "tmp" + os.sep in str(_p) and case["kind"] == "sharded":
            # I/O on the writer's spill / buffer files (whatever they are called)
            obs["io_calls_on_buffer_files"] = obs.get("io_calls_on_buffer_files", 0) + 1
    ref_audit = sc0.audit()
    ref_listing = _listing(sc0.d)
    expect_refusal = case["op"] in ("store_chunk_refused", "fetch_chunk_missing")
    try:
        if outcome0[0] == "raised":
            if not expect_refusal or not isinstance(outcome0[1], (DataAccessError, OSError)):
                return {"violations": [{"kind": "operation-fails-without-any-fault",
                                        "detail": f"{ctx}: {type(outcome0[1]).__name__}: "
                                        f"{str(outcome0[1])[:160]}"}], "obs": obs}
        elif expect_refusal:
            v.append({"kind": "refusal-expected-but-operation-returned", "detail": ctx})
        # fault-free sanity: everything stored earlier still reads back, new items too
        for it, want in list(sc0.model.items()) + [(i, w) for i, w in sc0.pending.items()
                                                   if w is not None]:
            if it in sc0.pending and it in sc0.model:
                want = sc0.pending[it]
            got = ref_audit.get(it)
            obs["survivor_checks"] += 1
            if got is None or got[0] != "ok" or not _same_value(np, got[1], want):
                v.append({"kind": "fault-free-run-loses-or-changes-data",
                          "detail": f"{ctx}: item {it}: {got[0] if got else None} "
                          f"{got[1] if got and got[0] == 'error' else ''}"})
        if v:
            return {"violations": v[:3], "obs": obs}
    finally:
        shutil.rmtree(top0, ignore_errors=True)
    # ---- fault enumeration: every call position x every plausible errno
    for k, op, path in events:
        for err in iohook.ERRNOS.get(op, [errno.EIO]):
            outcome, hook, sc, top = _run_op(np, case, "fault", k=k, err=err)
            try:
                obs["fault_runs"] += 1
                if not hook.fired:
                    continue
                obs["faults_fired"] += 1
                label = f"{op}#{k} {errno.errorcode[err]} on {os.path.relpath(path, top)}"
                retried_ok = False
                if outcome[0] == "raised" and case["op"] in ("store+close", "rewrite+close") \
                        and getattr(sc, "phase", None) == "close":
                    # the cause of the failure is gone: closing again either fails again
                    # or, if it returns normally, must really have written everything
                    try:
                        sc.acc.close()
                        retried_ok = True
                        obs["close_retries_returning_normally"] = obs.get(
                            "close_retries_returning_normally", 0) + 1
                    except Exception:  # noqa: BLE001
                        obs["close_retries_failing_again"] = obs.get(
                            "close_retries_failing_again", 0) + 1
                audit = sc.audit()
                if retried_ok:
                    for it, want in sc.pending.items():
                        got = audit.get(it)
                        if want is not None and (got is None or got[0] != "ok"
                                                 or not _same_value(np, got[1], want)):
                            v.append({"kind": "close-retried-successfully-but-data-missing",
                                      "detail": f"{ctx}: {label}: close() failed, was "
                                      f"called again and returned normally, but {it} is "
                                      f"{got[0] if got else None} afterwards"})
                            break
                if outcome[0] == "raised":
                    exc = outcome[1]
                    cls = "DataAccessError" if isinstance(exc, DataAccessError) else (
                        "OSError" if isinstance(exc, OSError) else type(exc).__name__)
                    obs["fault_outcomes"][cls] = obs["fault_outcomes"].get(cls, 0) + 1
                    if cls not in ("DataAccessError", "OSError"):
                        v.append({"kind": "fault-surfaces-as-unrelated-exception",
                                  "detail": f"{ctx}: {label}: {type(exc).__name__}: "
                                  f"{str(exc)[:140]}"})
                else:
                    obs["fault_outcomes"]["returned"] = \
                        obs["fault_outcomes"].get("returned", 0) + 1
                    same_result = _same_value(np, outcome[1], outcome0[1]) \
                        if outcome0[0] == "returned" else False
                    same_effect = all(
                        audit.get(it, (None,))[0] == ref_audit[it][0]
                        and (ref_audit[it][0] != "ok"
                             or _same_value(np, audit[it][1], ref_audit[it][1]))
                        for it in ref_audit) and _same_files(_listing(sc.d), ref_listing)
                    if same_result and same_effect:
                        obs["absorbed_faults"] += 1
                    else:
                        v.append({"kind": "fault-swallowed-operation-returned-normally",
                                  "detail": f"{ctx}: {label}: the call returned as if it had "
                                  f"succeeded; result same as fault-free: {same_result}, "
                                  f"effect same as fault-free: {same_effect}"})
                # everything stored earlier must be readable and unchanged
                for it, want in sc.model.items():
                    if it in sc.pending:
                        continue      # the name being (over)written may be damaged
                    obs["survivor_checks"] += 1
                    got = audit.get(it)
                    if got is None or got[0] != "ok" or not _same_value(np, got[1], want):
                        v.append({"kind": "earlier-data-lost-or-changed-after-fault",
                                  "detail": f"{ctx}: {label}: item {it} now "
                                  f"{got[0] if got else None} "
                                  f"{got[1] if got and got[0] == 'error' else 'different'}"})
                        break
                # nothing may decode to wrong values
                for it, got in audit.items():
                    if it[0] == "chunk" and got[0] == "ok":
                        cands = [x for x in (sc.model.get(it), sc.pending.get(it))
                                 if x is not None]
                        if not any(_same_value(np, got[1], c) for c in cands):
                            v.append({"kind": "wrong-voxels-decoded-after-fault",
                                      "detail": f"{ctx}: {label}: chunk {it[1:]} decodes to "
                                      "values that were never stored"})
            finally:
                shutil.rmtree(top, ignore_errors=True)
            if len(v) > 5:
                return {"violations": v[:6], "obs": obs, "evals": obs["fault_runs"]}
    # ---- crash enumeration (write-side operations only)
    if case["op"] in ("store_chunk_new", "store_chunk_overwrite", "store_file",
                      "create+write", "store+close", "rewrite+close", "file_ops"):
        for k, op, path in events:
            for when in ("before", "after"):
                top = tempfile.mkdtemp(prefix="c18c-")
                try:
                    tmp = os.path.join(top, "tmp")
                    os.makedirs(tmp)
                    sc = Scenario(np, case, top)
                    sc.prepare()
                    pid = os.fork()
                    if pid == 0:
                        try:
                            tempfile.tempdir = tmp
                            with iohook.Hook([top], mode="crash", k=k, when=when):
                                sc.operate()
                        finally:
                            os._exit(0)
                    _, status = os.waitpid(pid, 0)
                    obs["crash_runs"] += 1
                    code = os.waitstatus_to_exitcode(status)
                    if code != iohook.CRASH_STATUS:
                        continue
                    obs["crashes_fired"] += 1
                    # what the operation would have stored
                    sc.pending = dict(_pending_of(np, case, sc))
                    audit = sc.audit()
                    label = f"crash {when} {op}#{k} on {os.path.relpath(path, top)}"
                    for it, got in audit.items():
                        if it == "__dataset__":
                            cl = "dataset-unreadable"
                        elif got[0] == "error":
                            cl = "absent-or-invalid"
                        else:
                            cands = [x for x in (sc.model.get(it), sc.pending.get(it))
                                     if x is not None]
                            if it[0] == "file" and sc.pending.get(it, 0) is None:
                                cl = "complete"       # info file: any readable content
                            elif any(_same_value(np, got[1], c) for c in cands):
                                cl = "complete"
                            elif it[0] == "file":
                                # the statement is about chunks (decoded voxels); a plain
                                # file may be left partially written, which its consumer
                                # detects when parsing it
                                cl = "partial-file"
                            else:
                                cl = "WRONG"
                                v.append({"kind": "wrong-content-after-interrupted-write",
                                          "detail": f"{ctx}: {label}: {it} decodes / reads "
                                          "back successfully but differs from everything "
                                          "that was ever stored for it"})
                        obs["crash_classification"][cl] = \
                            obs["crash_classification"].get(cl, 0) + 1
                    for it, want in sc.model.items():
                        if it in sc.pending:
                            continue
                        got = audit.get(it)
                        obs["survivor_checks"] += 1
                        if got is None or got[0] != "ok" or not _same_value(np, got[1], want):
                            v.append({"kind": "earlier-data-lost-after-interrupted-write",
                                      "detail": f"{ctx}: {label}: item {it} now "
                                      f"{got[0] if got else None}"})
                            break
                finally:
                    shutil.rmtree(top, ignore_errors=True)
                if len(v) > 5:
                    break
            if len(v) > 5:
                break
    # ---- torn writes: an interruption INSIDE a write leaves a prefix of the file that was
    # being written.  Every file the operation creates or changes is cut at sampled byte
    # offsets; a fresh reader must find each chunk complete, absent or detectably invalid,
    # and a gzip-stored file (whose truncation the stream format reveals) either complete
    # or failing with the documented error - never shorter contents served as if complete
    if case["op"] in ("store_chunk_new", "store_chunk_overwrite", "store_file",
                      "create+write", "store+close", "rewrite+close", "file_ops") and len(v) <= 5:
        top = tempfile.mkdtemp(prefix="c18t-")
        try:
            tmp = os.path.join(top, "tmp")
            os.makedirs(tmp)
            sc = Scenario(np, case, top)
            sc.prepare()

            def snapshot(d):
                out = {}
                for rel in _listing(d):
                    with open(os.path.join(d, rel), "rb") as fh:
                        out[rel] = fh.read()
                return out
            before = snapshot(sc.d)
            saved = tempfile.tempdir
            tempfile.tempdir = tmp
            try:
                sc.operate()
            finally:
                tempfile.tempdir = saved
            after = snapshot(sc.d)
            changed = [rel for rel in after if before.get(rel) != after[rel]]
            r5 = random.Random(len(changed) * 7919 + case.get("variant", 0))
            for rel in changed:
                full = after[rel]
                n = len(full)
                cuts = sorted({0, 1, 2, 9, 10, 11, 17, 18, n // 2, n - 9, n - 8, n - 1}
                              | {r5.randrange(n + 1) for _ in range(8)}
                              # whole fractions of the file (one slab of a chunk, one
                              # member of an index) and whole pages / blocks
                              | {n // k for k in (3, 4, 5, 8, 16)}
                              | {n - n // k for k in (3, 4, 8)}
                              | {2 ** k for k in range(5, 21)}
                              | {4096 * k for k in (3, 5, 6, 7)})
                for cut in [c for c in cuts if 0 <= c < n]:
                    with open(os.path.join(sc.d, rel), "wb") as fh:
                        fh.write(full[:cut])
                    obs["torn_write_states"] = obs.get("torn_write_states", 0) + 1
                    audit = sc.audit()
                    label = f"{rel} cut to {cut} of {n} bytes"
                    for it, got in audit.items():
                        if it == "__dataset__" or got[0] != "ok":
                            continue
                        cands = [x for x in (sc.model.get(it), sc.pending.get(it))
                                 if x is not None]
                        if it[0] == "file" and sc.pending.get(it, 0) is None:
                            continue          # info file: any readable content
                        if any(_same_value(np, got[1], c) for c in cands):
                            continue
                        if it[0] == "chunk":
                            v.append({"kind": "wrong-content-after-interrupted-write",
                                      "detail": f"{ctx}: {label}: chunk {it[1:]} decodes "
                                      "successfully but differs from everything that was "
                                      "ever stored for it"})
                        elif rel.endswith(".gz") and cut > 0:
                            # (an EMPTY .gz is a valid gzip file of zero members and reads
                            # as empty content - counted with the plain files below)
                            v.append({"kind": "truncated-gzip-file-served-as-if-complete",
                                      "detail": f"{ctx}: {label}: {it[1]!r} is fetched "
                                      f"without error as {len(got[1])} bytes"})
                        else:
                            obs["torn_plain_files_read_partially"] = obs.get(
                                "torn_plain_files_read_partially", 0) + 1
                    for it, want in sc.model.items():
                        if it in sc.pending:
                            continue
                        got = audit.get(it)
                        # only the file being written is torn; shard files hold several
                        # chunks, so earlier chunks of the SAME shard file may be lost
                        if got is not None and got[0] == "ok" and \
                                not _same_value(np, got[1], want):
                            v.append({"kind": "earlier-data-lost-or-changed-after-fault",
                                      "detail": f"{ctx}: {label}: item {it} reads back "
                                      "with different content"})
                            break
                    if len(v) > 5:
                        break
                with open(os.path.join(sc.d, rel), "wb") as fh:
                    fh.write(full)
                if len(v) > 5:
                    break
        finally:
            shutil.rmtree(top, ignore_errors=True)
    # ---- a real kernel fault: the file-size limit of the process (RLIMIT_FSIZE, SIGXFSZ
    # ignored) makes write(2) store only part of a buffer and fail with EFBIG afterwards -
    # the behaviour of a full disk or quota, which no Python-level exception can imitate
    if case["op"] in ("store_chunk_new", "store_chunk_overwrite", "store_file",
                      "create+write", "store+close", "rewrite+close", "file_ops") and len(v) <= 5:
        import resource
        import signal
        for limit in (0, 1, 7, 40, 100, 250, 600, 1500, 5000):
            top = tempfile.mkdtemp(prefix="c18l-")
            try:
                tmp = os.path.join(top, "tmp")
                os.makedirs(tmp)
                sc = Scenario(np, case, top)
                sc.prepare()
                rfd, wfd = os.pipe()
                pid = os.fork()
                if pid == 0:
                    msg = "died"
                    try:
                        os.close(rfd)
                        tempfile.tempdir = tmp
                        signal.signal(signal.SIGXFSZ, signal.SIG_IGN)
                        resource.setrlimit(resource.RLIMIT_FSIZE, (limit, limit))
                        try:
                            sc.operate()
                            msg = "returned"
                        except BaseException as exc:  # noqa: BLE001
                            msg = "raised:" + ("DataAccessError" if isinstance(
                                exc, DataAccessError) else "OSError" if isinstance(
                                exc, OSError) else type(exc).__name__) + ":" + str(exc)[:120]
                    finally:
                        os.write(wfd, msg.encode("utf-8", "replace"))
                        os._exit(0)
                os.close(wfd)
                with os.fdopen(rfd, "rb") as fh:
                    msg = fh.read().decode("utf-8", "replace")
                os.waitpid(pid, 0)
                obs["size_limit_runs"] = obs.get("size_limit_runs", 0) + 1
                sc.pending = dict(_pending_of(np, case, sc))
                audit = sc.audit()
                label = f"file-size limit of {limit} bytes"
                if msg.startswith("returned"):
                    obs["size_limit_returned"] = obs.get("size_limit_returned", 0) + 1
                    for it, want in sc.pending.items():
                        got = audit.get(it)
                        if want is None:
                            ok = got is not None and got[0] == "ok"
                        else:
                            ok = got is not None and got[0] == "ok" and _same_value(
                                np, got[1], want)
                        if not ok:
                            v.append({"kind": "short-write-reported-as-success",
                                      "detail": f"{ctx}: {label}: the operation returned "
                                      f"normally but {it} is "
                                      f"{(got[0] + ' ' + str(got[1])[:40]) if got else None}"
                                      " for a fresh reader"})
                            break
                else:
                    obs["size_limit_raised"] = obs.get("size_limit_raised", 0) + 1
                    cls = msg.split(":")[1] if ":" in msg else msg
                    if cls not in ("DataAccessError", "OSError"):
                        v.append({"kind": "fault-surfaces-as-unrelated-exception",
                                  "detail": f"{ctx}: {label}: {msg[:200]}"})
                for it, want in sc.model.items():
                    if it in sc.pending:
                        continue
                    got = audit.get(it)
                    obs["survivor_checks"] += 1
                    if got is None or got[0] != "ok" or not _same_value(np, got[1], want):
                        v.append({"kind": "earlier-data-lost-or-changed-after-fault",
                                  "detail": f"{ctx}: {label}: item {it} now "
                                  f"{got[0] if got else None}"})
                        break
                for it, got in audit.items():
                    if it[0] == "chunk" and got[0] == "ok":
                        cands = [x for x in (sc.model.get(it), sc.pending.get(it))
                                 if x is not None]
                        if not any(_same_value(np, got[1], c) for c in cands):
                            v.append({"kind": "wrong-voxels-decoded-after-fault",
                                      "detail": f"{ctx}: {label}: chunk {it[1:]} decodes to "
                                      "values that were never stored"})
            finally:
                shutil.rmtree(top, ignore_errors=True)
            if len(v) > 5:
                break
    return {"violations": v[:6], "obs": obs,
            "evals": 1 + obs["fault_runs"] + obs["crash_runs"],
            "distinct_disjoint": obs["faults_fired"] + obs["crashes_fired"],
            "sample": {"case": case, "io_calls": [(k, op) for k, op, _p in events][:40],
                       "K": K}}


def _pending_of(np, case, sc):
    """Items the operation stores (recomputed in the parent after a crash in the child)."""
    op = case["op"]
    if case["kind"] == "file":
        if op == "store_chunk_new":
            return {("chunk", "k", NEW): _arr(np, NEW, 2)}
        if op == "store_chunk_overwrite":
            return {("chunk", "k", COORDS[1]): _arr(np, COORDS[1], 9)}
        if op == "store_file":
            return {("file", "mesh/sub/frag:0"): b"FRAGMENT" * 40}
        if op == "create+write":
            d = {("chunk", "k", c): _arr(np, c, 4 + sc.variant) for c in COORDS}
            d[("file", "info")] = None
            return d
    else:
        if op == "store+close":
            return {("chunk", "k", c): _arr(np, c, 5 + sc.variant)
                    for c in sc._shard_coords()}
        if op == "rewrite+close":
            return {("chunk", "k", c): _arr(np, c, 11 + sc.variant)
                    for c in sc._shard_coords()}
        if op == "file_ops":
            return {("file", "mesh/frag"): b"MESH" * 30}
    return {}


# --------------------------------------------------------------------------- HTTP

HTTP_FAULTS = ["404", "500", "502", "503", "short", "long", "ignore-range", "drop"]


def run_http(case):
    import numpy as np
    from neuroglancer_scripts import accessor as accessor_mod
    from neuroglancer_scripts.accessor import DataAccessError
    from harness.checks import c14
    top = tempfile.mkdtemp(prefix="c18h-")
    obs = {"cases": 1, "kinds": {"http": 1}, "http_fault_runs": 0, "http_faults_fired": 0,
           "http_outcomes": {}}
    v = []
    srv = None
    try:
        sub = {"kind": "shard" if case["sharded"] else "flat", "dseed": case["dseed"]}
        info, cfgs, stored = c14._build(np, sub, top)
        srv = httpd.StaticServer(top)
        chunks = sorted(stored)[:3]
        ctx = f"http {'sharded' if case['sharded'] else 'plain'} dataset seed {case['dseed']}"
        for ch in chunks:
            for mode in HTTP_FAULTS:
                for skip in ((0, 1, 2) if case["sharded"] else (0,)):
                    # (half of the datasets are addressed with user information in the URL)
                    h = accessor_mod.get_accessor_for_url(
                        (srv.base.replace("http://", "http://t0ken@")
                         if case.get("userinfo") else srv.base) + "/ds")
                    srv.arm(mode, "/" + ch[0] + "/", skip=skip)
                    try:
                        r = h.fetch_chunk(*ch)
                        outcome = "returned"
                    except DataAccessError:
                        outcome = "DataAccessError"
                    except OSError:
                        outcome = "OSError"
                    except Exception as exc:  # noqa: BLE001
                        outcome = type(exc).__name__
                    hits = srv.disarm()
                    obs["http_fault_runs"] += 1
                    if not hits:
                        continue
                    obs["http_faults_fired"] += 1
                    obs["http_outcomes"][outcome] = obs["http_outcomes"].get(outcome, 0) + 1
                    if outcome == "returned":
                        v.append({"kind": "http-fault-returned-as-data",
                                  "detail": f"{ctx}: {mode!r} at request #{skip + 1} of chunk "
                                  f"{ch}: {len(r)} bytes returned"})
                    elif outcome not in ("DataAccessError", "OSError") and not (
                            case["sharded"] and outcome in ("HTTPError", "ConnectionError",
                                                            "ChunkedEncodingError")):
                        v.append({"kind": "http-fault-surfaces-as-unrelated-exception",
                                  "detail": f"{ctx}: {mode!r} at request #{skip + 1} of chunk "
                                  f"{ch}: {outcome}"})
                    # with faults off again the chunk must be readable and unchanged
                    try:
                        if bytes(h.fetch_chunk(*ch)) != stored[ch]:
                            v.append({"kind": "data-changed-after-http-fault",
                                      "detail": f"{ctx}: chunk {ch}"})
                    except Exception as exc:  # noqa: BLE001
                        v.append({"kind": "accessor-unusable-after-http-fault",
                                  "detail": f"{ctx}: {mode!r}: chunk {ch}: "
                                  f"{type(exc).__name__}: {str(exc)[:100]}"})
                    if len(v) > 4:
                        break
                if len(v) > 4:
                    break
    finally:
        if srv:
            srv.close()
        shutil.rmtree(top, ignore_errors=True)
    return {"violations": v[:5], "obs": obs, "evals": obs["http_fault_runs"],
            "distinct_disjoint": obs["http_faults_fired"],
            "sample": {"case": case}}


# --------------------------------------------------------------------------- strace audit

SYSCALL_CLASS = {"openat": "open", "open": "open", "creat": "open", "mkdir": "mkdir",
                 "mkdirat": "mkdir", "unlink": "unlink", "unlinkat": "unlink",
                 "rename": "rename", "renameat": "rename", "renameat2": "rename",
                 "rmdir": "rmdir"}
HOOK_CLASS = {"open": "open", "os.open": "open", "mkdir": "mkdir", "unlink": "unlink",
              "remove": "unlink", "rename": "rename", "replace": "rename", "rmdir": "rmdir"}


def run_strace(case):
    """System-call level cross-check of the assumption behind the whole enumeration: every
    file the repository's storage code touches is seen by the Python-level interposition.
    A driver performs representative operations under iohook while strace records the
    file-related system calls of the same process; every successful call on a path below
    the work directory must have a matching interposed event."""
    import re
    import subprocess
    import sys
    top = tempfile.mkdtemp(prefix="c18s-")
    obs = {"cases": 1, "kinds": {"strace": 1}, "strace_syscalls_on_dataset_paths": 0,
           "strace_fd_relative_calls": 0, "interposed_events_in_driver": 0,
           "strace_available": 0}
    v = []
    try:
        work = os.path.join(top, "work")
        log = os.path.join(top, "strace.log")
        ev = os.path.join(top, "events.json")
        cmd = ["strace", "-f", "-qq", "-e",
               "trace=openat,open,creat,mkdir,mkdirat,unlink,unlinkat,rename,renameat,"
               "renameat2,rmdir", "-o", log, sys.executable, "-W", "ignore", "-m",
               "harness.io_driver", work, ev]
        try:
            p = subprocess.run(cmd, capture_output=True, text=True, timeout=300)
        except (OSError, subprocess.TimeoutExpired) as exc:
            obs["strace_error"] = [f"{type(exc).__name__}: {exc}"]
            return {"violations": [], "obs": obs}
        if p.returncode != 0 or not os.path.exists(ev):
            obs["strace_error"] = [p.stderr[-300:]]
            return {"violations": [], "obs": obs}
        obs["strace_available"] = 1
        with open(ev) as f:
            events = json.load(f)
        obs["interposed_events_in_driver"] = len(events)
        seen = {(HOOK_CLASS[op], os.path.normpath(path)) for op, path in events
                if op in HOOK_CLASS}
        pat = re.compile(r'^\d+\s+(\w+)\((?:(AT_FDCWD|\d+), )?"([^"]*)"(.*)\)\s+= (-?\d+)')
        missing = []
        with open(log) as f:
            for line in f:
                m = pat.match(line)
                if not m:
                    continue
                name, dirfd, path, rest, ret = m.groups()
                if name not in SYSCALL_CLASS or int(ret) < 0:
                    continue
                if dirfd not in (None, "AT_FDCWD") and not path.startswith("/"):
                    obs["strace_fd_relative_calls"] += 1
                    continue
                path = os.path.normpath(path)
                if not path.startswith(work + os.sep) or path == os.path.join(work, "tmp"):
                    continue
                cls = SYSCALL_CLASS[name]
                if name == "unlinkat" and "AT_REMOVEDIR" in rest:
                    cls = "rmdir"
                if "O_DIRECTORY" in rest:
                    continue          # directory handles of scandir/rmtree
                obs["strace_syscalls_on_dataset_paths"] += 1
                if (cls, path) not in seen:
                    missing.append(f"{name} {os.path.relpath(path, work)}")
        if missing:
            obs["interposition_gaps"] = missing[:10]
    finally:
        shutil.rmtree(top, ignore_errors=True)
    return {"violations": v, "obs": obs, "evals": 1,
            "sample": {"case": case, "syscalls": obs["strace_syscalls_on_dataset_paths"]}}


def run_strace_cli(case):
    """Fault injection at SYSTEM-CALL level (strace -e inject=...) around the real
    volume-to-precomputed process: the n-th write / openat / mkdir that targets the dataset
    directory fails with ENOSPC / EACCES.  Oracle: the command exits non-zero, or - if it
    exits 0 - every chunk is present and correct; in both cases a fresh reader never
    decodes wrong voxels."""
    import itertools
    import re
    import subprocess
    import sys

    import nibabel
    import numpy as np
    from neuroglancer_scripts import accessor as accessor_mod
    from neuroglancer_scripts import precomputed_io
    top = tempfile.mkdtemp(prefix="c18i-")
    obs = {"cases": 1, "kinds": {"strace_cli": 1}, "syscall_fault_runs": 0,
           "syscall_faults_leading_to_failure_status": 0, "syscall_faults_absorbed": 0,
           "syscall_injection_points": 0}
    v = []
    try:
        rnd = random.Random(case["seed"])
        shape = (rnd.randint(9, 20), rnd.randint(5, 12), rnd.randint(3, 9))
        vol = np.random.default_rng(case["seed"]).integers(0, 255, size=shape, dtype=np.uint8)
        fn = os.path.join(top, "v.nii")
        nibabel.save(nibabel.Nifti1Image(vol, np.eye(4)), fn)
        info = {"type": "image", "data_type": "uint8", "num_channels": 1, "scales": [
            {"key": "k", "size": list(shape), "chunk_sizes": [[8, 8, 8]], "encoding": "raw",
             "resolution": [1e6, 1e6, 1e6], "voxel_offset": [0, 0, 0]}]}
        base = [sys.executable, "-W", "ignore", "-m",
                "neuroglancer_scripts.scripts.volume_to_precomputed", fn]
        opts = ["--flat"] + ([] if case["gzip"] else ["--no-gzip"])
        env = dict(os.environ, TQDM_DISABLE="1")

        def fresh(name):
            d = os.path.join(top, name)
            os.makedirs(d)
            with open(os.path.join(d, "info"), "w") as f:
                json.dump(info, f)
            return d
        d0 = fresh("dry")
        log = os.path.join(top, "dry.log")
        try:
            p = subprocess.run(["strace", "-f", "-qq", "-y", "-e", "trace=write,openat,mkdir",
                                "-o", log, *base, d0, *opts], capture_output=True, text=True,
                               timeout=300, env=env)
        except (OSError, subprocess.TimeoutExpired) as exc:
            obs["strace_error"] = [f"{type(exc).__name__}: {exc}"]
            return {"violations": [], "obs": obs}
        if p.returncode != 0:
            obs["strace_error"] = [p.stderr[-300:]]
            return {"violations": [], "obs": obs}
        counters = {"write": 0, "openat": 0, "mkdir": 0}
        points = []
        pat = re.compile(r"^\d+\s+(write|openat|mkdir)\((.*)$")
        with open(log) as f:
            for line in f:
                m = pat.match(line)
                if not m:
                    continue
                name = m.group(1)
                counters[name] += 1
                if d0 in m.group(2).split(", ", 2)[0] + m.group(2)[:400] and (
                        name != "openat" or "O_WRONLY" in line or "O_RDWR" in line):
                    points.append((name, counters[name]))
        obs["syscall_injection_points"] = len(points)
        rnd.shuffle(points)
        grid = [(x, min(x + 8, shape[0]), y, min(y + 8, shape[1]), z, min(z + 8, shape[2]))
                for x, y, z in itertools.product(range(0, shape[0], 8), range(0, shape[1], 8),
                                                 range(0, shape[2], 8))]
        want = np.moveaxis(vol, (0, 1, 2), (2, 1, 0))[np.newaxis]
        for n, (name, k) in enumerate(points[:case["max_points"]]):
            d = fresh(f"run{n}")
            err = {"write": "ENOSPC", "openat": "EACCES", "mkdir": "EACCES"}[name]
            p = subprocess.run(["strace", "-f", "-qq", "-o", "/dev/null", "-e",
                                f"trace={name}", "-e", f"inject={name}:error={err}:when={k}",
                                *base, d, *opts], capture_output=True, text=True, timeout=300,
                               env=env)
            obs["syscall_fault_runs"] += 1
            label = f"{err} at {name} #{k} ({'gzip' if case['gzip'] else 'plain'} flat files)"
            pio = precomputed_io.get_IO_for_existing_dataset(
                accessor_mod.get_accessor_for_url(d))
            wrong, missing = [], []
            for c in grid:
                try:
                    got = pio.read_chunk("k", c)
                    if not np.array_equal(got, want[:, c[4]:c[5], c[2]:c[3], c[0]:c[1]]):
                        wrong.append(c)
                except Exception:  # noqa: BLE001
                    missing.append(c)
            if wrong:
                v.append({"kind": "wrong-voxels-after-system-call-fault",
                          "detail": f"{label}: chunk {wrong[0]} decodes to wrong values "
                          f"(exit status {p.returncode})"})
            if p.returncode == 0:
                obs["syscall_faults_absorbed"] += 1
                if missing:
                    v.append({"kind": "command-succeeded-although-a-write-failed",
                              "detail": f"{label}: exit status 0 but {len(missing)} of "
                              f"{len(grid)} chunks cannot be read, e.g. {missing[0]}"})
            else:
                obs["syscall_faults_leading_to_failure_status"] += 1
                tail = p.stderr.strip().splitlines()[-1:] or [""]
                if not any(w in tail[0] for w in ("Error", "error", "Errno")):
                    obs.setdefault("unusual_failure_messages", []).append(tail[0][:80])
            shutil.rmtree(d, ignore_errors=True)
            if len(v) > 3:
                break
    finally:
        shutil.rmtree(top, ignore_errors=True)
    return {"violations": v[:4], "obs": obs, "evals": max(1, obs["syscall_fault_runs"]),
            "distinct_disjoint": obs["syscall_fault_runs"],
            "sample": {"case": case, "points": obs["syscall_injection_points"]}}



def run_strace_pipeline(case):
    """System-call level faults AND kills (strace -e inject=...:error= / :signal=SIGKILL)
    around the real compute-scales and convert-chunks processes, on the read side too (the
    n-th read of a source chunk fails with EIO).  Oracle: with exit status 0 every chunk the
    command is responsible for is present and equals the fault-free result; with any other
    outcome (failure status, killed) a fresh reader never decodes wrong voxels from any
    chunk, and everything that was in the directory before is intact."""
    import itertools
    import re
    import subprocess
    import sys

    import numpy as np
    from neuroglancer_scripts import accessor as accessor_mod
    from neuroglancer_scripts import file_accessor, precomputed_io
    top = tempfile.mkdtemp(prefix="c18p-")
    cmd = case["command"]
    obs = {"cases": 1, "kinds": {"strace_pipeline": 1}, "pipeline_fault_runs": 0,
           "pipeline_kill_runs": 0, "pipeline_failure_status": 0, "pipeline_absorbed": 0,
           "pipeline_killed": 0, "pipeline_injection_points": 0,
           "pipeline_commands": {cmd: 1}, "pipeline_read_faults": 0}
    v = []
    try:
        rnd = random.Random(case["seed"])
        shape = [rnd.randint(17, 30), rnd.randint(9, 20), rnd.randint(3, 9)]
        half = [-(-s // 2) for s in shape]
        dt = "uint8" if cmd == "scales" else "uint32"
        vol = np.random.default_rng(case["seed"]).integers(
            0, 200, size=(1, shape[2], shape[1], shape[0])).astype(dt)
        scales = [{"key": "s0", "size": shape, "chunk_sizes": [[8, 8, 8]], "encoding": "raw",
                   "resolution": [1, 1, 1], "voxel_offset": [0, 0, 0]},
                  {"key": "s1", "size": half, "chunk_sizes": [[8, 8, 8]], "encoding": "raw",
                   "resolution": [2, 2, 2], "voxel_offset": [0, 0, 0]}]
        sharded = bool(case.get("sharded"))
        sharding = {"@type": "neuroglancer_uint64_sharded_v1", "hash": "identity",
                    "minishard_bits": 1, "shard_bits": 1, "preshift_bits": 1,
                    "minishard_index_encoding": "raw", "data_encoding": "raw"}
        if sharded and cmd == "scales":
            for sc_ in scales:
                sc_["sharding"] = dict(sharding)
        obs["pipeline_sharded_destinations"] = int(sharded)
        info = {"type": "image", "data_type": dt, "num_channels": 1,
                "scales": scales if cmd == "scales" else scales[:1]}
        gz = case["gzip"]
        opts = [] if sharded else ["--flat"] + ([] if gz else ["--no-gzip"])
        env = dict(os.environ, TQDM_DISABLE="1")

        def grid(sc):
            X, Y, Z = sc["size"]
            return [(x, min(x + 8, X), y, min(y + 8, Y), z, min(z + 8, Z))
                    for x, y, z in itertools.product(range(0, X, 8), range(0, Y, 8),
                                                     range(0, Z, 8))]
        # template source dataset (scale s0 written with the library, outside of any fault)
        tmpl = os.path.join(top, "tmpl")
        if sharded and cmd == "scales":
            from neuroglancer_scripts import sharded_file_accessor
            acc = sharded_file_accessor.ShardedFileAccessor(tmpl)
        else:
            acc = file_accessor.FileAccessor(tmpl, flat=True, gzip=gz)
        pio = precomputed_io.get_IO_for_new_dataset(info, acc)
        for c in grid(scales[0]):
            pio.write_chunk(vol[:, c[4]:c[5], c[2]:c[3], c[0]:c[1]], "s0", c)
        if hasattr(acc, "close"):
            acc.close()

        def fresh(name):
            d = os.path.join(top, name)
            if cmd == "scales":
                shutil.copytree(tmpl, d)
                return d, [sys.executable, "-W", "ignore", "-m",
                           "neuroglancer_scripts.scripts.compute_scales", *opts,
                           "--downscaling-method", "stride", d]
            os.makedirs(d)
            dinfo = json.loads(json.dumps(info))
            dinfo["scales"][0]["encoding"] = "compressed_segmentation"
            dinfo["scales"][0]["compressed_segmentation_block_size"] = [4, 4, 4]
            dinfo["type"] = "segmentation"
            if sharded:
                dinfo["scales"][0]["sharding"] = dict(sharding)
            with open(os.path.join(d, "info"), "w") as f:
                json.dump(dinfo, f)
            return d, [sys.executable, "-W", "ignore", "-m",
                       "neuroglancer_scripts.scripts.convert_chunks", *opts, tmpl, d]

        def decode(d):
            """-> {(key, coords): array | None}, or None when the dataset cannot be opened"""
            try:
                pio_ = precomputed_io.get_IO_for_existing_dataset(
                    accessor_mod.get_accessor_for_url(d))
            except Exception:  # noqa: BLE001
                return None
            out = {}
            for sc in pio_.info["scales"]:
                for c in grid(sc):
                    try:
                        out[(sc["key"], c)] = np.array(pio_.read_chunk(sc["key"], c))
                    except Exception:  # noqa: BLE001
                        out[(sc["key"], c)] = None
            return out
        d0, argv0 = fresh("dry")
        log = os.path.join(top, "dry.log")
        try:
            p = subprocess.run(["strace", "-f", "-qq", "-y", "-e",
                                "trace=write,openat,mkdir,read", "-o", log, *argv0],
                               capture_output=True, text=True, timeout=300, env=env)
        except (OSError, subprocess.TimeoutExpired) as exc:
            obs["strace_error"] = [f"{type(exc).__name__}: {exc}"]
            return {"violations": [], "obs": obs}
        if p.returncode != 0:
            obs["strace_error"] = [p.stderr[-300:]]
            return {"violations": [], "obs": obs}
        ref = decode(d0)
        if ref is None or any(a is None for a in ref.values()):
            return {"violations": [{"kind": "fault-free-command-left-unreadable-chunks",
                                    "detail": f"{cmd} {opts}"}], "obs": obs}
        # the fault-free result itself: s1 = every second voxel / the same labels re-encoded
        for (key, c), arr in ref.items():
            if key == "s0" or cmd == "convert":
                exp = vol[:, c[4]:c[5], c[2]:c[3], c[0]:c[1]]
            else:
                exp = vol[:, ::2, ::2, ::2][:, c[4]:c[5], c[2]:c[3], c[0]:c[1]]
            if not np.array_equal(arr, exp):
                return {"violations": [{"kind": "fault-free-run-loses-or-changes-data",
                                        "detail": f"{cmd} {opts}: {key} {c}"}], "obs": obs}
        counters = {"write": 0, "openat": 0, "mkdir": 0, "read": 0}
        points = []
        pat = re.compile(r"^\d+\s+(write|openat|mkdir|read)\((.*)$")
        src_dir = d0 if cmd == "scales" else tmpl
        with open(log) as f:
            for line in f:
                m = pat.match(line)
                if not m:
                    continue
                name = m.group(1)
                counters[name] += 1
                head = m.group(2)[:400]
                if name == "read":
                    if src_dir + "/s0" in head:
                        points.append((name, counters[name]))
                elif d0 in head and (name != "openat" or "O_WRONLY" in line
                                     or "O_RDWR" in line):
                    points.append((name, counters[name]))
        obs["pipeline_injection_points"] = len(points)
        rnd.shuffle(points)
        before = {k: a for k, a in ref.items() if k[0] == "s0"} if cmd == "scales" else {}
        wside = [pt for pt in points if pt[0] != "read"][:case["max_points"] * 2 // 3]
        rside = [pt for pt in points if pt[0] == "read"][:case["max_points"] // 3]
        for n, (name, k) in enumerate(wside + rside):
            d, argv = fresh(f"run{n}")
            kill = (n % 2 == 1) and name != "read"
            if kill:
                inj = f"inject={name}:signal=SIGKILL:when={k}"
                label = f"{cmd}: SIGKILL at {name} #{k}"
            else:
                err = {"write": "ENOSPC", "openat": "EACCES", "mkdir": "EACCES",
                       "read": "EIO"}[name]
                inj = f"inject={name}:error={err}:when={k}"
                label = f"{cmd}: {err} at {name} #{k}"
            label += " (sharded)" if sharded else f" ({'gzip' if gz else 'plain'} flat files)"
            try:
                p = subprocess.run(["strace", "-f", "-qq", "-o", "/dev/null", "-e",
                                    f"trace={name}", "-e", inj, *argv], capture_output=True,
                                   text=True, timeout=300, env=env)
            except subprocess.TimeoutExpired:
                obs["pipeline_timeouts"] = obs.get("pipeline_timeouts", 0) + 1
                shutil.rmtree(d, ignore_errors=True)
                continue
            if kill:
                obs["pipeline_kill_runs"] += 1
            else:
                obs["pipeline_fault_runs"] += 1
                obs["pipeline_read_faults"] += int(name == "read")
            got = decode(d)
            if got is None:
                got = {}
            wrong = [k_ for k_, a in got.items() if a is not None
                     and not np.array_equal(a, ref[k_])]
            missing = [k_ for k_ in ref if got.get(k_) is None]
            if wrong:
                v.append({"kind": "wrong-voxels-after-system-call-fault",
                          "detail": f"{label}: chunk {wrong[0]} decodes to values that differ "
                          f"from the fault-free result (exit status {p.returncode})"})
            lost = [k_ for k_ in before if got.get(k_) is None]
            if lost:
                v.append({"kind": "earlier-data-lost-or-changed-after-fault",
                          "detail": f"{label}: source chunk {lost[0]} can no longer be read "
                          f"(exit status {p.returncode})"})
            if p.returncode == 0:
                obs["pipeline_absorbed"] += 1
                if missing:
                    v.append({"kind": "command-succeeded-although-a-system-call-failed",
                              "detail": f"{label}: exit status 0 but {len(missing)} of "
                              f"{len(ref)} chunks cannot be read, e.g. {missing[0]}"})
            elif p.returncode in (-9, 137):
                obs["pipeline_killed"] += 1
            else:
                obs["pipeline_failure_status"] += 1
            shutil.rmtree(d, ignore_errors=True)
            if len(v) > 3:
                break
    finally:
        shutil.rmtree(top, ignore_errors=True)
    n_runs = obs["pipeline_fault_runs"] + obs["pipeline_kill_runs"]
    return {"violations": v[:4], "obs": obs, "evals": max(1, n_runs),
            "distinct_disjoint": n_runs,
            "sample": {"case": case, "points": obs["pipeline_injection_points"]}}


def run_case(case):
    if case["kind"] == "strace_pipeline":
        return run_strace_pipeline(case)
    if case["kind"] == "strace":
        return run_strace(case)
    if case["kind"] == "strace_cli":
        return run_strace_cli(case)
    return run_http(case) if case["kind"] == "http" else run_storage(case)


def gates(obs, tier):
    calls = obs.get("calls", {})
    ck = obs.get("call_kinds", {})
    return {
        "file_and_sharded_and_http": len(obs.get("kinds", {})) == 6,
        "system_call_faults_and_kills_on_the_pipeline_commands":
        len(obs.get("pipeline_commands", {})) == 2
        and obs.get("pipeline_fault_runs", 0) >= 8 and obs.get("pipeline_kill_runs", 0) >= 2
        and obs.get("pipeline_failure_status", 0) > 0 and obs.get("pipeline_killed", 0) > 0
        and obs.get("pipeline_read_faults", 0) > 0,
        "system_call_faults_on_commands_writing_sharded_scales": obs.get(
            "pipeline_sharded_destinations", 0) >= 2,
        "system_call_faults_on_the_real_command": obs.get("syscall_fault_runs", 0) >= 10
        and obs.get("syscall_faults_leading_to_failure_status", 0) > 0,
        "interposition_complete_at_system_call_level": obs.get("strace_available", 0) > 0
        and obs.get("strace_syscalls_on_dataset_paths", 0) > 50
        and not obs.get("interposition_gaps"),
        "writers_and_readers_reached": calls.get("FileAccessor.store_chunk", 0) > 0
        and obs.get("calls_by_module", {}).get("sharded_file_accessor", 0) > 0,
        "all_io_call_kinds_intercepted": all(ck.get(k, 0) > 0 for k in
                                             ("open", "write", "close", "stat", "mkdir",
                                              "read")),
        "faults_fired": obs.get("faults_fired", 0) > 1000,
        "crashes_fired": obs.get("crashes_fired", 0) > 300,
        "absorbed_faults_seen": obs.get("absorbed_faults", 0) > 0,
        "data_access_errors_seen": obs.get("fault_outcomes", {}).get("DataAccessError", 0) > 100,
        "http_faults_fired": obs.get("http_faults_fired", 0) > 30,
        "torn_write_states_audited": obs.get("torn_write_states", 0) > 300,
        "kernel_file_size_limit_faults": obs.get("size_limit_raised", 0) > 50
        and obs.get("size_limit_returned", 0) > 0,
        "on_disk_buffer_files_intercepted": obs.get("io_calls_on_buffer_files", 0) > 0,
    }
