"""C19 — all-in-one conversion equals the step-by-step pipeline and steps are repeatable.

Monitors: exit codes, info files and fully decoded datasets produced by subprocess
invocations of the real command modules, for command sequences generated from the documented
workflows (generate info -> generate scales -> convert volume or slices -> compute scales ->
convert chunks -> statistics) with randomly repeated data-writing steps.
"""
import itertools
import json
import os
import random
import shutil
import subprocess
import sys
import tempfile

PROPERTY = "C19"
LEVEL = "exploration"
RULE = ("case = command sequence: (A) volume-to-precomputed-pyramid with an option set; (B) "
        "the documented separate commands with the same options; optional extra steps "
        "(convert-chunks towards a compressed_segmentation or raw re-encoding, scale-stats) "
        "and one or two randomly repeated data-writing steps; or a slices / sharded "
        "step-by-step route (no all-in-one equivalent) checked for completeness and "
        "repeatability.  Volumes 66..150 voxels per axis (>= 2 scales at the default chunk "
        "size), option sets: type, encoding, downscaling method, outside value, flat / "
        "no-gzip, input range, mmap.  distinct = (route, option set, shape); non-trivial = "
        ">= 2 scales")
ASSUMPTIONS = [
    "'same options' = the options the all-in-one command accepts, passed to the separate "
    "command that documents them (type/encoding -> generate-scales-info; scaling and mmap -> "
    "volume-to-precomputed; downscaling -> compute-scales; storage -> every writing step)",
    "a repeated step may refuse to run (non-zero status) as long as the decoded contents "
    "are unchanged"]
MANIFEST = {
    "level_text": "Program-level differential monitoring with real processes: generated "
    "command sequences from the documented workflows are executed as subprocesses of the "
    "real command modules; the all-in-one result and the step-by-step result must have equal "
    "info files and equal decoded voxels at every scale; after every command that exits 0 "
    "the files and chunks it was responsible for must exist and decode; a repeated "
    "data-writing step must leave the decoded contents unchanged.  Exploration over option "
    "sets and small synthetic volumes.",
    "level_note": "Trusted: the local readers used to decode the results (C03/C05).",
    "technique": "runtime monitoring: differential of decoded datasets across command "
    "sequences run as real processes; post-condition audit after each successful command; "
    "offline no-loss check of each command's own store_chunk event log; contracts active "
    "inside the child processes",
    "design_ref": "DESIGN.md section 2, C19",
}
REACH = []
WORKER_TIMEOUT = {"quick": 1800, "thorough": 9000}
CASE_TIMEOUT = 900


def gen_cases(tier, seed):
    rnd = random.Random(f"C19:{seed}")
    n = 48 if tier == "quick" else 600
    cases = []
    for k in range(n):
        route = rnd.choice(["pair", "pair", "pair", "slices", "sharded"])
        seg = rnd.random() < 0.4
        method = rnd.choice(["auto", "auto", "average", "stride", "majority"] if not seg else
                            ["auto", "auto", "stride", "majority"])
        hi = 90 if method == "majority" else 150
        cases.append({"route": route, "seg": seg,
                      "shape": [rnd.randint(130, 190) if rnd.random() < 0.85
                                else rnd.randint(40, 120),
                                rnd.randint(20, 40 if method == "majority" else hi),
                                rnd.randint(5, 40 if method == "majority" else hi)],
                      "dtype": rnd.choice(["uint8", "uint16", "float32", "int16"]) if not seg
                      else rnd.choice(["uint8", "uint16", "uint32", "uint64"]),
                      "voxel": rnd.choice([[1, 1, 1], [1, 1, 1], [1, 1, 2], [0.5, 0.5, 1.5],
                                           [2, 1, 1], [0.01, 0.01, 0.64], [0.5, 0.004, 0.004]]),
                      "method": method,
                      "type_opt": rnd.random() < 0.7, "cseg": seg and rnd.random() < 0.6,
                      "outside": rnd.choice([None, None, 0.0]),
                      "flat": rnd.random() < 0.4, "nogzip": rnd.random() < 0.4,
                      "input_max": rnd.choice([None, None, None, 200.0]),
                      "mmap": rnd.random() < 0.2,
                      # header scaling of integer files, with or without --ignore-scaling
                      "scal": rnd.choice([None, None, None, [0.5, 3.0], [2.0, 0.0],
                                          [1.0, 10.0]]),
                      "ignore": rnd.random() < 0.6,
                      "repeat": rnd.sample(["volume", "scales", "allinone", "convert"],
                                           rnd.randint(1, 2)),
                      "extra_convert": rnd.random() < 0.5, "stats": rnd.random() < 0.5,
                      "orientation": rnd.choice(["RAS", "LPI", "ASR", "PIR"]),
                      "sharding": rnd.choice(["1,1,0", "0,2,1", "2,0,0"]),
                      "vseed": rnd.randrange(2 ** 32)})
        if route != "pair" and rnd.random() < 0.5:
            # documented options of generate-scales-info: other chunk sizes (down to one voxel
            # per chunk, whose pyramid compute-scales refuses) and a bounded number of scales
            t = rnd.choice([1, 2, 8, 16, 32, 128])
            cases[-1]["target"] = t
            cases[-1]["max_scales"] = rnd.choice([None, None, 2, 3])
            if t == 1:
                cases[-1]["shape"] = [rnd.randint(9, 16), rnd.randint(3, 7), rnd.randint(2, 5)]
            elif t == 2:
                cases[-1]["shape"] = [rnd.randint(20, 40), rnd.randint(8, 16),
                                      rnd.randint(4, 10)]
    for c in cases:
        if c["route"] == "sharded":
            c["extra_convert"] = True
    # directed: strongly anisotropic voxels (thin chunks) with compressed_segmentation through
    # the all-in-one/step pair; one voxel per chunk through the step-by-step route
    cases[2].update({"route": "pair", "seg": True, "cseg": True, "type_opt": True,
                     "dtype": "uint32", "voxel": [0.01, 0.01, 0.64], "method": "majority",
                     "shape": [150, 30, 20], "scal": None, "input_max": None})
    cases[2].pop("target", None)
    cases[3].update({"route": "slices", "target": 1, "max_scales": None,
                     "shape": [12, 5, 3]})
    # directed: raw chunks stored uncompressed whose first bytes look like a gzip header
    # (the volume generator plants 1f 8b at chunk corners when vseed % 3 == 0)
    for k in (7, 8):
        cases[k].update({"route": "pair", "seg": False, "cseg": False,
                         "dtype": ("uint8", "uint16")[k - 7], "nogzip": True, "scal": None,
                         "input_max": None, "method": "stride", "voxel": [1, 1, 1],
                         "shape": [150, 30, 20], "vseed": cases[k]["vseed"] // 3 * 3})
        cases[k].pop("target", None)
    # directed: a segmentation declared with --type and the DEFAULT downscaling method (which
    # must then be the striding one in both routes)
    cases[6].update({"route": "pair", "seg": True, "type_opt": True, "cseg": False,
                     "method": "auto", "dtype": "uint16", "scal": None, "input_max": None,
                     "voxel": [1, 1, 1], "vseed": cases[6]["vseed"] // 3 * 3 + 1})
    cases[6].pop("target", None)
    # directed: --ignore-scaling TOGETHER with --input-max (each changes the value mapping)
    cases[5].update({"route": "pair", "seg": False, "cseg": False, "dtype": "int16",
                     "scal": [0.5, 3.0], "ignore": True, "input_max": 200.0,
                     "method": "average"})
    cases[5].pop("target", None)
    # directed: header scaling with --ignore-scaling through the all-in-one/step pair
    for k, dtn in ((0, "uint8"), (1, "int16")):
        cases[k].update({"route": "pair", "seg": False, "cseg": False, "dtype": dtn,
                         "scal": [0.5, 3.0], "ignore": True, "input_max": None,
                         "method": "average" if k else "stride"})
    return cases


from harness import cli  # noqa: E402


def _chunks(sc):
    X, Y, Z = sc["size"]
    cs = sc["chunk_sizes"][0]
    for x, y, z in itertools.product(range(0, X, cs[0]), range(0, Y, cs[1]),
                                     range(0, Z, cs[2])):
        yield (x, min(x + cs[0], X), y, min(y + cs[1], Y), z, min(z + cs[2], Z))


def _read(np, d, only_scale0=False):
    """-> (dict chunk -> array, info, list of problems)"""
    from neuroglancer_scripts import accessor as accessor_mod
    from neuroglancer_scripts import precomputed_io
    pio = precomputed_io.get_IO_for_existing_dataset(accessor_mod.get_accessor_for_url(d))
    out, problems = {}, []
    scales = pio.info["scales"][:1] if only_scale0 else pio.info["scales"]
    for sc in scales:
        for c in _chunks(sc):
            try:
                out[(sc["key"], c)] = np.array(pio.read_chunk(sc["key"], c))
            except Exception as exc:  # noqa: BLE001
                problems.append(f"scale {sc['key']} chunk {c}: {type(exc).__name__}: "
                                f"{str(exc)[:80]}")
    return out, pio.info, problems


def _same(np, a, b):
    if set(a) != set(b):
        return f"chunk sets differ ({len(a)} vs {len(b)})"
    for k in a:
        x, y = a[k], b[k]
        if x.shape != y.shape or x.dtype != y.dtype or not (
                np.array_equal(x, y, equal_nan=True) if x.dtype.kind == "f"
                else np.array_equal(x, y)):
            n = int((x != y).sum()) if x.shape == y.shape else -1
            return f"scale/chunk {k}: {n} of {x.size} decoded voxels differ"
    return None


def run_case(case):
    import nibabel
    import numpy as np
    import PIL.Image
    top = tempfile.mkdtemp(prefix="c19-")
    obs = {"sequences": 1, "commands_run": 0, "routes": {case["route"]: 1},
           "pair_comparisons": 0, "repeat_checks": 0, "completeness_audits": 0,
           "scales_total": 0, "methods": {case["method"]: 1}, "repeated_steps": {},
           "nonzero_repeat_status": 0}
    v = []
    log = []
    report = os.path.join(top, "child-monitors.jsonl")

    nrec = [0]

    def audit_events(mod, args, rc):
        """Offline check of the command's own event log (recorded inside the child): a
        command that exited 0 must itself have written every chunk of the scales it is
        responsible for - reading the dataset back cannot tell a chunk written now from one
        left by an earlier run."""
        recs = cli.read_records(report, nrec[0])
        nrec[0] += len(recs)
        resp = {"volume_to_precomputed": "first", "slices_to_precomputed": "first",
                "compute_scales": "rest", "volume_to_precomputed_pyramid": "all",
                "convert_chunks": "all"}.get(mod)
        if rc != 0 or resp is None or "--generate-info" in args or not recs:
            return
        dest = args[-1]
        if dest.startswith("file://"):
            import urllib.parse
            dest = urllib.parse.unquote(dest[len("file://"):])
        try:
            with open(os.path.join(dest, "info")) as fh:
                scales = json.load(fh)["scales"]
        except Exception:  # noqa: BLE001
            return
        want = {"first": scales[:1], "rest": scales[1:], "all": scales}[resp]
        wrote = {}
        for k, c in recs[-1].get("written", []):
            wrote[(k, tuple(c))] = wrote.get((k, tuple(c)), 0) + 1
        grid = {(sc["key"], c) for sc in want for c in _chunks(sc)}
        obs["event_log_audits"] = obs.get("event_log_audits", 0) + 1
        obs["write_events_audited"] = obs.get("write_events_audited", 0) + len(wrote)
        obs["chunks_written_more_than_once"] = obs.get(
            "chunks_written_more_than_once", 0) + sum(1 for n in wrote.values() if n > 1)
        lost = sorted(grid - set(wrote))
        if lost:
            v.append({"kind": "successful-command-did-not-write-all-its-chunks",
                      "detail": f"{ctx}: `{mod}` exited 0 but its own event log lacks "
                      f"{len(lost)} of {len(grid)} chunks it is responsible for, e.g. "
                      f"{lost[0]}"})

    def run(mod, *args, expect_ok=True):
        rc, tail, out = cli.run(mod, args, report=report)
        audit_events(mod, args, rc)
        obs["commands_run"] += 1
        log.append(f"{mod} {' '.join(a if len(a) < 40 else '...' + a[-25:] for a in args)} "
                   f"-> {rc}")
        if rc != 0 and any("ContractBroken" in t for t in tail):
            v.append({"kind": "contract-broken-inside-the-command",
                      "detail": f"{ctx}: `{log[-1]}`: {tail}"})
        elif rc != 0 and expect_ok:
            v.append({"kind": "command-failed",
                      "detail": f"{ctx}: `{log[-1]}`: {tail}; sequence {log[-6:]}"})
        return rc, out

    try:
        g = np.random.default_rng(case["vseed"])
        shape = case["shape"]
        dt = np.dtype(case["dtype"])
        if case["seg"]:
            # regions of 3, 5 or 6 voxels: with odd region sizes the 2x2x2 blocks of the first
            # downscaling step straddle region borders (stride / majority / average differ)
            rs = (3, 5, 6)[case["vseed"] % 3]
            vol = (g.integers(0, 7, size=[-(-s // rs) for s in shape]).repeat(rs, 0)
                   .repeat(rs, 1).repeat(rs, 2)[:shape[0], :shape[1], :shape[2]]).astype(dt)
        elif dt.kind == "f":
            vol = g.normal(size=shape).astype(dt)
        else:
            vol = g.integers(0, 250, size=shape).astype(dt)
        if not case["seg"] and dt.kind in "iu" and case["vseed"] % 3 == 0:
            # stored chunks whose first bytes look like a gzip header (1f 8b): an uncompressed
            # raw chunk is whatever its voxels are
            for x0 in (0, 64, 128):
                if x0 + 1 < shape[0]:
                    if dt.itemsize == 1:
                        vol[x0, 0, 0], vol[x0 + 1, 0, 0] = 0x1f, 0x8b
                    else:
                        vol[x0, 0, 0] = np.array(0x8b1f, dtype="uint16").view(
                            dt if dt.itemsize == 2 else "uint16")
            obs["volumes_with_gzip_magic_at_chunk_corners"] = 1
            obs["gzip_magic_volumes_stored_uncompressed"] = int(bool(case["nogzip"]))
        aff = np.diag(case["voxel"] + [1.0])
        fn = os.path.join(top, "v.nii" + (".gz" if case["vseed"] % 2 else ""))
        img = nibabel.Nifti1Image(vol, aff, dtype=vol.dtype) if dt.itemsize == 8 \
            else nibabel.Nifti1Image(vol, aff)
        scal = case.get("scal") if (dt.kind in "iu" and not case["seg"]) else None
        if scal:
            img.header.set_slope_inter(*scal)
            obs["files_with_header_scaling"] = 1
        nibabel.save(img, fn)
        tyenc = []
        if case["seg"] and case["type_opt"]:
            tyenc += ["--type", "segmentation"]
        if case["cseg"] and dt.name in ("uint32", "uint64"):
            tyenc += ["--encoding", "compressed_segmentation"]
        store = (["--flat"] if case["flat"] else []) + (["--no-gzip"] if case["nogzip"] else [])
        # the first pass of every data-writing step stores with the fastest gzip level; a
        # repeated step runs with the default level, so it overwrites every file with a
        # (usually) SHORTER one - the decoded contents must be the same
        store1 = store + (["--compresslevel", "1"] if not case["nogzip"]
                          and case["vseed"] % 2 else [])
        obs["first_pass_with_other_gzip_level"] = int(store1 != store)
        down = [] if case["method"] == "auto" else ["--downscaling-method", case["method"]]
        if case["outside"] is not None and case["method"] in ("average", "auto") \
                and not case["seg"]:
            down += ["--outside-value", str(case["outside"])]
        scaling = []
        if case["input_max"] is not None and dt.kind != "f" and not case["seg"]:
            scaling += ["--input-max", str(case["input_max"])]
        if case["mmap"]:
            scaling += ["--mmap"]
        if scal and case.get("ignore"):
            scaling += ["--ignore-scaling"]
            obs["ignore_scaling_runs"] = 1
        route = case["route"]
        gsi = []
        if case.get("target"):
            gsi += ["--target-chunk-size", str(case["target"])]
            obs["target_chunk_sizes"] = {str(case["target"]): 1}
        if case.get("max_scales"):
            gsi += ["--max-scales", str(case["max_scales"])]
        obs["strongly_anisotropic_voxels"] = int(max(case["voxel"]) / min(case["voxel"]) >= 64)
        ctx = (f"{route} volume {shape} {dt.name} voxel {case['voxel']} options "
               f"{tyenc + store + down + scaling + gsi}")
        A, B = os.path.join(top, "A"), os.path.join(top, "B")
        if route == "pair":
            run("volume_to_precomputed_pyramid", *tyenc, *store1, *down, *scaling, fn, A)
            run("volume_to_precomputed", "--generate-info", *scaling, fn, B, expect_ok=False)
            for f_ in ("info_fullres.json", "transform.json"):
                try:
                    with open(os.path.join(B, f_)) as fh:
                        json.load(fh)
                except Exception as exc:  # noqa: BLE001
                    v.append({"kind": "generated-file-missing-or-invalid",
                              "detail": f"{ctx}: {f_}: {type(exc).__name__}"})
            run("generate_scales_info", *tyenc, os.path.join(B, "info_fullres.json"), B)
            run("volume_to_precomputed", *store1, *scaling, fn, B)
        elif route == "slices":
            # RAS-oriented stack of PNG/TIFF slices, uint8/uint16 only
            if dt.kind == "f" or dt == np.int16 or dt.itemsize == 8:
                vol = g.integers(0, 250, size=shape).astype(np.uint8)
                dt = vol.dtype
            code = case["orientation"]
            from harness.checks.c15 import AX
            # input stack [slice,row,col] such that the converted volume equals `vol`
            insize = [0, 0, 0]
            for i, letter in enumerate(code):
                insize[i] = shape[AX[letter][0]]
            ncol, nr, ns = insize
            grids = np.meshgrid(np.arange(ns), np.arange(nr), np.arange(ncol), indexing="ij")
            inp = {2: grids[0], 1: grids[1], 0: grids[2]}
            ras = [None] * 3
            for i, letter in enumerate(code):
                a, s = AX[letter]
                ras[a] = inp[i] if s > 0 else insize[i] - 1 - inp[i]
            stack = vol[ras[0], ras[1], ras[2]]
            sd = os.path.join(top, "slices")
            os.makedirs(sd)
            for i in range(ns):
                PIL.Image.fromarray(stack[i]).save(os.path.join(sd, f"s{i:05d}.png"))
            os.makedirs(B)
            fullres = {"type": "segmentation" if case["seg"] else "image",
                       "data_type": dt.name, "num_channels": 1,
                       "scales": [{"size": shape, "voxel_offset": [0, 0, 0],
                                   "resolution": [x * 1e6 for x in case["voxel"]]}]}
            with open(os.path.join(B, "info_fullres.json"), "w") as fh:
                json.dump(fullres, fh)
            run("generate_scales_info", *gsi, os.path.join(B, "info_fullres.json"), B)
            run("slices_to_precomputed", *store1, "--input-orientation", code, sd, B)
        else:   # sharded step-by-step route (isotropic voxels -> cubic chunks)
            aff = np.diag([1., 1., 1., 1.])
            nibabel.save(nibabel.Nifti1Image(vol, aff, dtype=vol.dtype), fn)
            # the destination is spelled as a file:// URL in half of the sequences
            Burl = B
            if case["vseed"] % 2:
                import urllib.parse
                Burl = "file://" + urllib.parse.quote(B)
                obs["sharded_destinations_spelled_as_file_urls"] = 1
            run("volume_to_precomputed", "--generate-info", "--sharding", case["sharding"],
                *scaling, fn, Burl, expect_ok=False)
            run("generate_scales_info", *tyenc, *gsi, os.path.join(B, "info_fullres.json"),
                Burl)
            run("volume_to_precomputed", *scaling, fn, Burl)
        if v:
            return {"violations": v[:3], "obs": obs}
        # completeness after the full-resolution step
        b0, infoB, problems = _read(np, B, only_scale0=True)
        obs["completeness_audits"] += 1
        if problems:
            v.append({"kind": "successful-command-left-unreadable-chunks",
                      "detail": f"{ctx}: after `{log[-1]}`: {problems[:2]}"})
            return {"violations": v, "obs": obs}
        if route in ("slices",) or (route == "sharded" and not scaling):
            want0 = np.moveaxis(vol, (0, 1, 2), (2, 1, 0))[np.newaxis]
            sc0 = infoB["scales"][0]
            got0 = np.zeros_like(want0, dtype=infoB["data_type"])
            for (k, c), arr in b0.items():
                got0[:, c[4]:c[5], c[2]:c[3], c[0]:c[1]] = arr
            if not np.array_equal(got0, want0.astype(got0.dtype)):
                v.append({"kind": "full-resolution-scale-differs-from-input",
                          "detail": f"{ctx}: {int((got0 != want0).sum())} voxels differ"})
        rc_cs, _ = run("compute_scales", *store1, *down, B,
                       expect_ok=case.get("target") != 1)
        if case.get("target") == 1 and rc_cs != 0:
            # a pyramid of one-voxel chunks is refused (documented limit of the dyadic
            # downscaling); a zero status goes through the completeness audit below
            obs["one_voxel_chunk_pyramids_refused"] = 1
            return {"violations": v[:3], "obs": obs}
        if v:
            return {"violations": v[:3], "obs": obs}
        b, infoB, problems = _read(np, B)
        obs["completeness_audits"] += 1
        obs["scales_total"] += len(infoB["scales"])
        if problems:
            v.append({"kind": "successful-command-left-unreadable-chunks",
                      "detail": f"{ctx}: after `{log[-1]}`: {problems[:2]}"})
            return {"violations": v, "obs": obs}
        if route == "pair":
            a, infoA, problems = _read(np, A)
            obs["completeness_audits"] += 1
            if problems:
                v.append({"kind": "successful-command-left-unreadable-chunks",
                          "detail": f"{ctx}: all-in-one: {problems[:2]}"})
            obs["pair_comparisons"] += 1
            if infoA != infoB:
                diff = [k for k in set(infoA) | set(infoB) if infoA.get(k) != infoB.get(k)]
                v.append({"kind": "info-differs-between-all-in-one-and-steps",
                          "detail": f"{ctx}: differing keys {diff}; scales A "
                          f"{[(s['key'], s['encoding'], s['chunk_sizes']) for s in infoA['scales']]}"
                          f" B {[(s['key'], s['encoding'], s['chunk_sizes']) for s in infoB['scales']]}"})
            else:
                d = _same(np, a, b)
                if d:
                    v.append({"kind": "voxels-differ-between-all-in-one-and-steps",
                              "detail": f"{ctx}: {d}"})
        # ---- optional re-encoding step and statistics
        Cdir = None
        if case["extra_convert"] and not v and (route == "sharded" or infoB["data_type"] in (
                "uint32", "uint64", "uint8", "uint16")):
            Cdir = os.path.join(top, "C")
            enc = "compressed_segmentation" if infoB["scales"][0]["encoding"] == "raw" \
                else "raw"
            src_fullres = os.path.join(B, "info_fullres.json")
            if route != "sharded":
                run("generate_scales_info", "--encoding", enc, *gsi, src_fullres, Cdir)
                with open(os.path.join(Cdir, "info")) as fh:
                    infoC = json.load(fh)
            if route == "sharded":
                # plain destination info lacks the source's chunk layout: the sharded
                # dataset is copied with its own description instead (sharded source AND
                # sharded destination in one command process)
                shutil.rmtree(Cdir, ignore_errors=True)
                run("convert_chunks", "--copy-info", B, Cdir)
                obs["sharded_to_sharded_copies"] = 1
                if not v:
                    try:
                        cdat, infoC, problems = _read(np, Cdir)
                    except Exception as exc:  # noqa: BLE001
                        cdat, problems = {}, [f"{type(exc).__name__}: {str(exc)[:100]}"]
                    obs["completeness_audits"] += 1
                    if problems:
                        v.append({"kind": "successful-command-left-unreadable-chunks",
                                  "detail": f"{ctx}: convert-chunks --copy-info of the "
                                  f"sharded dataset: {problems[:2]}"})
                    elif _same(np, cdat, b):
                        v.append({"kind": "re-encoded-dataset-differs",
                                  "detail": f"{ctx}: convert-chunks --copy-info of the "
                                  f"sharded dataset: {_same(np, cdat, b)}"})
            elif [s["chunk_sizes"] for s in infoC["scales"]] == \
                    [s["chunk_sizes"] for s in infoB["scales"]]:
                run("convert_chunks", *store1, B, Cdir)
                if not v:
                    cdat, infoC, problems = _read(np, Cdir)
                    obs["completeness_audits"] += 1
                    if problems:
                        v.append({"kind": "successful-command-left-unreadable-chunks",
                                  "detail": f"{ctx}: convert-chunks: {problems[:2]}"})
                    elif set(cdat) != set(b) or any(
                            not np.array_equal(cdat[k].astype(np.uint64),
                                               b[k].astype(np.uint64)) for k in b):
                        v.append({"kind": "re-encoded-dataset-differs",
                                  "detail": f"{ctx}: convert-chunks towards {enc}"})
            else:
                Cdir = None
        if case["stats"] and not v:
            rc, out = run("scale_stats", B)
            if rc == 0 and out.count("Scale ") != len(infoB["scales"]):
                v.append({"kind": "scale-stats-incomplete", "detail": f"{ctx}: {out[:200]}"})
        # ---- repeated data-writing steps
        for step in case["repeat"]:
            if v:
                break
            if step == "volume" and route in ("pair", "sharded"):
                rc, _ = run("volume_to_precomputed", *store if route == "pair" else [],
                            *scaling, fn, B, expect_ok=False)
                target, ref = B, b
            elif step == "volume" and route == "slices":
                rc, _ = run("slices_to_precomputed", *store, "--input-orientation",
                            case["orientation"], os.path.join(top, "slices"), B,
                            expect_ok=False)
                target, ref = B, b
            elif step == "scales":
                rc, _ = run("compute_scales", *store, *down, B, expect_ok=False)
                target, ref = B, b
            elif step == "allinone" and route == "pair":
                rc, _ = run("volume_to_precomputed_pyramid", *tyenc, *store, *down, *scaling,
                            fn, A, expect_ok=False)
                target, ref = A, a
            elif step == "convert" and Cdir:
                rc, _ = run("convert_chunks", *store, B, Cdir, expect_ok=False)
                target, ref = Cdir, cdat
            else:
                continue
            obs["repeated_steps"][step] = obs["repeated_steps"].get(step, 0) + 1
            obs["repeat_checks"] += 1
            if rc != 0:
                obs["nonzero_repeat_status"] += 1
            again, _, problems = _read(np, target)
            d = problems[:1] or _same(np, ref, again)
            if d:
                v.append({"kind": "repeated-step-changed-the-dataset",
                          "detail": f"{ctx}: after repeating `{log[-1]}`: {d}"})
        # ---- the all-in-one command asked to convert ANOTHER volume into the directory that
        # already holds a dataset: it either refuses, or (exit status 0) the directory now
        # holds every file of the dataset it was asked to produce - info included
        if route == "pair" and not v and case["vseed"] % 2 == 0:
            shape2 = [max(8, s // 2 + 3) for s in shape]
            vol2 = vol[:shape2[0], :shape2[1], :shape2[2]]
            fn2 = os.path.join(top, "v2.nii")
            img2 = nibabel.Nifti1Image(np.ascontiguousarray(vol2), aff, dtype=vol2.dtype) \
                if dt.itemsize == 8 else nibabel.Nifti1Image(np.ascontiguousarray(vol2), aff)
            if scal:
                img2.header.set_slope_inter(*scal)
            nibabel.save(img2, fn2)
            rc, _ = run("volume_to_precomputed_pyramid", *tyenc, *store, *down, *scaling,
                        fn2, A, expect_ok=False)
            obs["other_volume_into_existing_dataset"] = 1
            if rc == 0:
                obs["other_volume_accepted"] = 1
                A2 = os.path.join(top, "A2")
                run("volume_to_precomputed_pyramid", *tyenc, *store, *down, *scaling, fn2, A2)
                if not v:
                    got, infoG, problems = _read(np, A)
                    want, infoW, _p = _read(np, A2)
                    if infoG != infoW:
                        v.append({"kind": "successful-command-did-not-write-the-info-it-was-"
                                  "asked-to-produce", "detail": f"{ctx}: `{log[-2]}` into a "
                                  "directory that held another dataset: info sizes "
                                  f"{[s['size'] for s in infoG['scales']]}, a fresh run "
                                  f"gives {[s['size'] for s in infoW['scales']]}"})
                    elif problems or _same(np, want, got):
                        v.append({"kind": "successful-command-left-unreadable-chunks",
                                  "detail": f"{ctx}: `{log[-2]}` into a directory that held "
                                  f"another dataset: {problems[:1] or _same(np, want, got)}"})
            else:
                obs["other_volume_refused"] = 1
        # ---- --generate-info into a directory that still holds the description of another
        # volume: refused, or (exit status 0) the description now is that of THIS volume
        if route == "pair" and not v and case["vseed"] % 3 == 1:
            S = os.path.join(top, "S")
            other = (vol.astype(np.float32) if dt.kind != "f" else
                     np.clip(vol, 0, 200).astype(np.uint8))
            fn3 = os.path.join(top, "v3.nii")
            nibabel.save(nibabel.Nifti1Image(other, aff), fn3)
            run("volume_to_precomputed", "--generate-info", fn3, S, expect_ok=False)
            rc, _ = run("volume_to_precomputed", "--generate-info", *scaling, fn, S,
                        expect_ok=False)
            obs["generate_info_over_a_stale_description"] = 1
            try:
                with open(os.path.join(S, "info_fullres.json")) as fh:
                    now = json.load(fh)
                with open(os.path.join(B, "info_fullres.json")) as fh:
                    mine = json.load(fh)
            except Exception as exc:  # noqa: BLE001
                now = mine = None
                v.append({"kind": "generated-file-missing-or-invalid",
                          "detail": f"{ctx}: {type(exc).__name__}"})
            if now is not None and rc in (0, 4) and now != mine:
                v.append({"kind": "successful-command-did-not-write-the-info-it-was-asked-to-"
                          "produce", "detail": f"{ctx}: `{log[-1]}` into a directory holding "
                          f"another volume's info_fullres.json: data_type "
                          f"{now.get('data_type')} left in place, this volume's is "
                          f"{mine.get('data_type')}"})
    except subprocess.TimeoutExpired as exc:
        v.append({"kind": "command-timeout", "detail": f"{ctx}: {exc}"})
    finally:
        from harness.core import merge_obs
        merge_obs(obs, cli.read_report(report))
        shutil.rmtree(top, ignore_errors=True)
    sig = f"{case['route']}|{case['shape']}|{case['dtype']}|{case['method']}|" \
          f"{case['seg']}|{case['cseg']}|{case['flat']}|{case['nogzip']}"
    return {"violations": v[:3], "obs": obs,
            "sigs": [sig] if obs["scales_total"] >= 2 else [],
            "sample": {"route": case["route"], "shape": case["shape"], "dtype": case["dtype"],
                       "commands": log[:12]}}


def gates(obs, tier):
    return {
        "all_routes": len(obs.get("routes", {})) == 3,
        "pair_comparisons": obs.get("pair_comparisons", 0) >= 8,
        "repeat_checks": obs.get("repeat_checks", 0) >= 10,
        "completeness_audits": obs.get("completeness_audits", 0) >= 30,
        "multi_scale": obs.get("scales_total", 0) >= 2 * obs.get("sequences", 1) * 0.8,
        "several_downscaling_methods": len(obs.get("methods", {})) >= 3,
        "monitors_active_inside_the_command_processes": obs.get("child_processes", 0) > 50
        and obs.get("child_contract_evaluations", {}).get("downscale", 0) > 100
        and obs.get("child_write_chunk_events", 0) > 100,
        "event_logs_audited": obs.get("event_log_audits", 0) > 50,
        "header_scaling_ignored_on_request": obs.get("ignore_scaling_runs", 0) >= 2,
        "other_target_chunk_sizes": len(obs.get("target_chunk_sizes", {})) >= 3,
        "one_voxel_chunk_pyramid_attempted": obs.get("target_chunk_sizes", {}).get("1", 0) > 0,
        "strongly_anisotropic_voxels": obs.get("strongly_anisotropic_voxels", 0) >= 3,
        "sharded_to_sharded_copies": obs.get("sharded_to_sharded_copies", 0) >= 3,
        "gzip_magic_volumes_stored_uncompressed": obs.get(
            "gzip_magic_volumes_stored_uncompressed", 0) >= 2,
    }
