"""Exact reference for numeric type conversion ("nearest representable, half-to-even for
integer targets, saturate") with Python integers / fractions.  No NumPy arithmetic."""
import math
import struct
from fractions import Fraction

INT_RANGE = {
    "uint8": (0, 2 ** 8 - 1), "uint16": (0, 2 ** 16 - 1), "uint32": (0, 2 ** 32 - 1),
    "uint64": (0, 2 ** 64 - 1), "int8": (-2 ** 7, 2 ** 7 - 1), "int16": (-2 ** 15, 2 ** 15 - 1),
    "int32": (-2 ** 31, 2 ** 31 - 1), "int64": (-2 ** 63, 2 ** 63 - 1),
}
F32_MAX = (2 - 2 ** -23) * 2.0 ** 127


def round_half_even(q):
    """q: int or Fraction -> int"""
    if isinstance(q, int):
        return q
    fl = q.numerator // q.denominator
    rem = q - fl
    if rem > Fraction(1, 2) or (rem == Fraction(1, 2) and fl % 2 == 1):
        return fl + 1
    return fl


def to_int_type(x, out):
    """x: Python int, or finite float/Fraction.  -> exact expected int."""
    lo, hi = INT_RANGE[out]
    if isinstance(x, float):
        x = Fraction(x)
    r = round_half_even(x)
    return max(lo, min(hi, r))


def nearest_float32(x):
    """x: Python int / float / Fraction -> set of acceptable float results (as Python
    floats).  Beyond the float32 range both readings of "maximum" (inf, largest finite)
    are accepted."""
    q = Fraction(x)
    if q == 0:
        return {0.0}
    sign = -1 if q < 0 else 1
    a = abs(q)
    # exponent e with 2^e <= a < 2^(e+1)
    e = a.numerator.bit_length() - a.denominator.bit_length()
    if Fraction(2) ** e > a:
        e -= 1
    elif Fraction(2) ** (e + 1) <= a:
        e += 1
    e = max(e, -126)  # subnormals share the exponent of the smallest normal
    ulp = Fraction(2) ** (e - 23)
    n = a / ulp
    r = round_half_even(n) * ulp
    if r > Fraction(F32_MAX):
        return {sign * math.inf, sign * F32_MAX}
    return {sign * float(r)}


def f32(x):
    """The float32 value nearest to the Python float x (as a Python float)."""
    return struct.unpack("<f", struct.pack("<f", x))[0]
