"""Reader for the Neuroglancer "neuroglancer_uint64_sharded_v1" format written ONLY from
precomputed/sharded.md, with Python integers.  Shares no code with the repository.

  shard file   <shard number, lowercase hex, zero-padded to ceil(shard_bits/4) digits>.shard
  shard index  2**minishard_bits entries [start, end) of uint64le pairs; offsets relative to
               the END of the shard index; entry n belongs to minishard n
  minishard    (after decoding with minishard_index_encoding) uint64le array [3, n] in C
  index        order: row 0 chunk ids (delta coded), row 1 start offsets (first relative to
               the end of the shard index, the others relative to the end of the previous
               chunk), row 2 sizes in bytes
  chunk data   encoded with data_encoding
"""
import gzip
import os
import struct
import zlib

from harness.refs.morton_spec import route


class ShardSpecError(Exception):
    pass


def _decode(buf, encoding, notes, what):
    if encoding == "raw":
        return buf
    try:
        return gzip.decompress(buf)
    except Exception:
        pass
    try:
        out = zlib.decompress(buf)
    except Exception as exc:
        raise ShardSpecError(f"{what}: neither a gzip nor a zlib stream ({exc})")
    notes.add("gzip-encoding-is-a-zlib-stream")
    return out


class ShardFile:
    """One parsed shard file."""

    def __init__(self, path, spec, notes):
        self.path = path
        with open(path, "rb") as f:
            self.buf = f.read()
        mb = spec["minishard_bits"]
        self.index_len = 16 * (1 << mb)
        if len(self.buf) < self.index_len:
            raise ShardSpecError(f"{path}: shorter than its shard index")
        words = struct.unpack(f"<{2 * (1 << mb)}Q", self.buf[:self.index_len])
        self.minishards = {}   # minishard number -> list of (id, start, size) absolute
        self.ranges = []       # (start, end, what) absolute byte ranges in the file
        for n in range(1 << mb):
            s, e = words[2 * n], words[2 * n + 1]
            if s == e:
                continue
            if e < s:
                raise ShardSpecError(f"{path}: minishard {n} index range [{s},{e}) negative")
            a, b = self.index_len + s, self.index_len + e
            if b > len(self.buf):
                raise ShardSpecError(f"{path}: minishard {n} index range leaves the file")
            self.ranges.append((a, b, f"minishard index {n}"))
            raw = _decode(self.buf[a:b], spec["minishard_index_encoding"], notes,
                          f"{path} minishard index {n}")
            if len(raw) % 24:
                raise ShardSpecError(f"{path}: minishard {n} index is {len(raw)} bytes, not "
                                     "a multiple of 24")
            cnt = len(raw) // 24
            arr = struct.unpack(f"<{3 * cnt}Q", raw)
            ids, offs, sizes = arr[:cnt], arr[cnt:2 * cnt], arr[2 * cnt:]
            entries = []
            cid = 0
            pos = self.index_len
            for i in range(cnt):
                cid = (cid + ids[i]) & 0xFFFFFFFFFFFFFFFF
                start = pos + offs[i]
                size = sizes[i]
                if i and ids[i] == 0:
                    raise ShardSpecError(f"{path}: minishard {n} ids not strictly increasing")
                if start + size > len(self.buf):
                    raise ShardSpecError(f"{path}: chunk {cid} range [{start},{start + size}) "
                                         "leaves the file")
                entries.append((cid, start, size))
                if size:
                    self.ranges.append((start, start + size, f"chunk {cid}"))
                pos = start + size
            self.minishards[n] = entries

    def overlaps(self):
        rs = sorted(self.ranges)
        bad = []
        for (a0, b0, w0), (a1, b1, w1) in zip(rs, rs[1:]):
            if a1 < b0:
                bad.append((w0, (a0, b0), w1, (a1, b1)))
        for a, b, w in rs:
            if a < self.index_len:
                bad.append((w, (a, b), "shard index", (0, self.index_len)))
        return bad


class Reader:
    def __init__(self, scale_dir, spec):
        self.dir = scale_dir
        # "minishard_index_encoding" and "data_encoding" are optional, default "raw"
        self.spec = dict({"minishard_index_encoding": "raw", "data_encoding": "raw"}, **spec)
        self.notes = set()
        self._files = {}

    def shard_file(self, stem):
        if stem not in self._files:
            path = os.path.join(self.dir, stem + ".shard")
            if not os.path.isfile(path):
                raise ShardSpecError(f"no file {stem}.shard")
            self._files[stem] = ShardFile(path, self.spec, self.notes)
        return self._files[stem]

    def locate(self, chunk_id):
        sp = self.spec
        shard, mini, stem = route(chunk_id, sp["preshift_bits"], sp["minishard_bits"],
                                  sp["shard_bits"])
        sf = self.shard_file(stem)
        for cid, start, size in sf.minishards.get(mini, []):
            if cid == chunk_id:
                return sf, start, size
        raise ShardSpecError(f"chunk {chunk_id} is not listed in minishard {mini} of "
                             f"{stem}.shard")

    def fetch(self, chunk_id):
        sf, start, size = self.locate(chunk_id)
        return _decode(sf.buf[start:start + size], self.spec["data_encoding"], self.notes,
                       f"chunk {chunk_id}")


def rewrite_interleaved(path, spec):
    """Rewrite one shard file in ANOTHER layout the specification allows, the one other
    writers of the format produce: for each minishard (here in descending order, each
    preceded by a few unused bytes) its chunk data followed directly by its own minishard
    index - instead of all data first and all indices, in minishard order, at the end.
    Chunk payloads are copied as they are; only positions change."""
    spec = dict({"minishard_index_encoding": "raw", "data_encoding": "raw"}, **spec)
    sf = ShardFile(path, spec, set())
    mb = spec["minishard_bits"]
    words = list(struct.unpack(f"<{2 * (1 << mb)}Q", sf.buf[:sf.index_len]))
    out = bytearray(sf.index_len)
    new_words = [0] * (2 * (1 << mb))
    for n in sorted(sf.minishards, reverse=True):
        entries = sf.minishards[n]
        out += b"\xee" * 8                       # unused bytes (gaps are allowed)
        ids, offs, sizes = [], [], []
        prev_id = 0
        first = True
        for cid, start, size in entries:
            ids.append((cid - prev_id) & 0xFFFFFFFFFFFFFFFF)
            prev_id = cid
            offs.append(len(out) - sf.index_len if first else 0)
            first = False
            sizes.append(size)
            out += sf.buf[start:start + size]
        raw = struct.pack(f"<{3 * len(entries)}Q", *ids, *offs, *sizes)
        old = sf.buf[sf.index_len + words[2 * n]:sf.index_len + words[2 * n + 1]]
        if spec["minishard_index_encoding"] == "gzip":
            raw = gzip.compress(raw) if old[:2] == b"\x1f\x8b" else zlib.compress(raw)
        new_words[2 * n] = len(out) - sf.index_len
        out += raw
        new_words[2 * n + 1] = len(out) - sf.index_len
    out[:sf.index_len] = struct.pack(f"<{2 * (1 << mb)}Q", *new_words)
    with open(path, "wb") as f:
        f.write(bytes(out))
