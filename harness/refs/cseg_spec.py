"""compressed_segmentation written ONLY from Neuroglancer's format description
(src/sliceview/compressed_segmentation/README.md): structural validator + decoder with plain
Python integer arithmetic, and an independent encoder able to emit layouts that the package's
encoder never produces.  Shares no code with the repository.

Format: file = [channel offset (uint32le, in 32-bit words from the start of the file)] x C,
then per channel a grid of gx*gy*gz block headers (block (x,y,z) at index x + gx*(y + gy*z)),
each two uint32le: word0 = lookup-table offset (low 24 bits) | encoded bits << 24, word1 =
encoded-values offset; both offsets in 32-bit words relative to the start of the channel's
data.  Voxel (x,y,z) of a block has index i = x + bx*(y + by*z); its table index occupies
`bits` bits starting at bit (i*bits) % 32 of word (i*bits)//32 of the encoded values
(little-endian).  Table entries are 1 (uint32) or 2 (uint64, low word first) words.
"""
import struct


class SpecError(Exception):
    pass


VALID_BITS = (0, 1, 2, 4, 8, 16, 32)


def _u32(buf, word, what):
    if word < 0 or 4 * word + 4 > len(buf):
        raise SpecError(f"{what}: word {word} lies outside the file ({len(buf)} bytes)")
    return struct.unpack_from("<I", buf, 4 * word)[0]


def decode(buf, shape_czyx, block_xyz, itemsize, want_layout=False, strict_padding=False):
    """-> (nested list [c][z][y][x] of Python ints, info dict)
    strict_padding: also require the table entries referenced by padding voxels (block
    positions outside the chunk) to lie inside the file - used when deciding whether a
    *mutated* file must be accepted (a lenient reader may or may not look at them)."""
    buf = bytes(buf)
    C, Z, Y, X = shape_czyx
    bx, by, bz = block_xyz
    if len(buf) % 4:
        raise SpecError("file length is not a multiple of 4 bytes")
    gx, gy, gz = -(-X // bx), -(-Y // by), -(-Z // bz)
    wpe = itemsize // 4
    out = [[[[None] * X for _ in range(Y)] for _ in range(Z)] for _ in range(C)]
    info = {"bits": {}, "blocks": 0, "tables": set(), "layout": []}
    for c in range(C):
        base = _u32(buf, c, f"channel {c} offset")
        if base < C:
            raise SpecError(f"channel {c} data (word {base}) overlaps the channel table")
        if base + 2 * gx * gy * gz > len(buf) // 4:
            raise SpecError(f"channel {c}: block headers extend past the end of the file")
        for z in range(gz):
            for y in range(gy):
                for x in range(gx):
                    h = base + 2 * (x + gx * (y + gy * z))
                    w0 = _u32(buf, h, "block header")
                    w1 = _u32(buf, h + 1, "block header")
                    table = base + (w0 & 0xFFFFFF)
                    bits = w0 >> 24
                    vals = base + w1
                    if bits not in VALID_BITS:
                        raise SpecError(f"block {(x, y, z)} of channel {c}: invalid number "
                                        f"of encoded bits {bits}")
                    info["bits"][bits] = info["bits"].get(bits, 0) + 1
                    info["blocks"] += 1
                    info["tables"].add((c, table))
                    nvox = bx * by * bz
                    if bits:
                        nwords = -(-nvox * bits // 32)
                        if vals + nwords > len(buf) // 4:
                            raise SpecError(f"block {(x, y, z)} of channel {c}: encoded "
                                            "values extend past the end of the file")
                    max_idx = 0
                    for zz in range(bz):
                        gzp = z * bz + zz
                        for yy in range(by):
                            gyp = y * by + yy
                            for xx in range(bx):
                                gxp = x * bx + xx
                                if bits == 0:
                                    idx = 0
                                else:
                                    bitpos = (xx + bx * (yy + by * zz)) * bits
                                    word = _u32(buf, vals + bitpos // 32, "encoded values")
                                    idx = (word >> (bitpos % 32)) & ((1 << bits) - 1)
                                if strict_padding and not (gxp < X and gyp < Y and gzp < Z):
                                    _u32(buf, table + idx * wpe + wpe - 1,
                                         "lookup table entry of a padding voxel")
                                if gxp < X and gyp < Y and gzp < Z:
                                    if idx > max_idx:
                                        max_idx = idx
                                    v = _u32(buf, table + idx * wpe, "lookup table entry")
                                    if wpe == 2:
                                        v |= _u32(buf, table + idx * wpe + 1,
                                                  "lookup table entry") << 32
                                    out[c][gzp][gyp][gxp] = v
                    if want_layout:
                        info["layout"].append({
                            "channel": c, "block": (x, y, z), "header_word": h,
                            "table_word": table, "bits": bits, "values_word": vals,
                            "table_entries_used": max_idx + 1})
    return out, info


# ----------------------------------------------------------------------------- encoder


def encode(arr, shape_czyx, block_xyz, itemsize, style, rnd):
    """Independent encoder.  arr: nested list [c][z][y][x] of ints.
    style: dict with boolean keys
      tables_after_values  lookup table placed after the block's encoded values
      share_tables         identical tables are stored once per channel
      unsorted_tables      table entries in a random order (not sorted)
      wide_bits            use a larger bit width than necessary
      gaps                 unused padding words between structures
      channels_reversed    channel data stored in reverse channel order
    """
    C, Z, Y, X = shape_czyx
    bx, by, bz = block_xyz
    gx, gy, gz = -(-X // bx), -(-Y // by), -(-Z // bz)
    wpe = itemsize // 4
    chan_bufs = []
    for c in range(C):
        words = [0] * (2 * gx * gy * gz)
        shared = {}
        for z in range(gz):
            for y in range(gy):
                for x in range(gx):
                    # gather the block, padding with the block's first value
                    vox = []
                    first = arr[c][min(z * bz, Z - 1)][min(y * by, Y - 1)][min(x * bx, X - 1)]
                    for zz in range(bz):
                        for yy in range(by):
                            for xx in range(bx):
                                gzp, gyp, gxp = z * bz + zz, y * by + yy, x * bx + xx
                                if gxp < X and gyp < Y and gzp < Z:
                                    vox.append(arr[c][gzp][gyp][gxp])
                                else:
                                    vox.append(first)
                    labels = sorted(set(vox))
                    if style.get("unsorted_tables"):
                        rnd.shuffle(labels)
                    need = 0
                    for b in VALID_BITS:
                        if (1 << b) >= len(labels):
                            need = b
                            break
                    bits = need
                    if style.get("wide_bits"):
                        wider = [b for b in VALID_BITS if b >= need and b <= 16]
                        if wider:
                            bits = rnd.choice(wider)
                    index = {lab: i for i, lab in enumerate(labels)}
                    vwords = []
                    if bits:
                        nwords = -(-len(vox) * bits // 32)
                        vwords = [0] * nwords
                        for i, lab in enumerate(vox):
                            bitpos = i * bits
                            vwords[bitpos // 32] |= index[lab] << (bitpos % 32)
                    twords = []
                    for lab in labels:
                        twords.append(lab & 0xFFFFFFFF)
                        if wpe == 2:
                            twords.append(lab >> 32)
                    key = tuple(twords)

                    def put_table():
                        if style.get("share_tables") and key in shared:
                            return shared[key]
                        if style.get("gaps") and rnd.random() < 0.5:
                            words.extend([0xDEADBEEF] * rnd.randint(1, 3))
                        off = len(words)
                        words.extend(twords)
                        shared[key] = off
                        return off

                    def put_values():
                        if style.get("gaps") and rnd.random() < 0.5:
                            words.extend([0xFEEDFACE] * rnd.randint(1, 3))
                        off = len(words)
                        words.extend(vwords)
                        return off

                    if style.get("tables_after_values"):
                        voff = put_values()
                        toff = put_table()
                    else:
                        toff = put_table()
                        voff = put_values()
                    if toff >= 1 << 24:
                        raise ValueError("table offset does not fit in 24 bits")
                    h = 2 * (x + gx * (y + gy * z))
                    words[h] = toff | (bits << 24)
                    words[h + 1] = voff
        chan_bufs.append(words)
    order = list(range(C))
    if style.get("channels_reversed"):
        order.reverse()
    offsets = [0] * C
    body = []
    pos = C
    if style.get("gaps"):
        body.extend([0xABABABAB] * 2)
        pos += 2
    for c in order:
        offsets[c] = pos
        body.extend(chan_bufs[c])
        pos += len(chan_bufs[c])
    return struct.pack(f"<{C + len(body)}I", *(offsets + body))
