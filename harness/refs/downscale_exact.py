"""Exact references for the three downscaling methods (nested Python lists / Fractions)."""
from collections import Counter
from fractions import Fraction

from harness.refs.dtype_exact import INT_RANGE, round_half_even


def ceil_div(a, b):
    return -(-a // b)


def out_shape(shape, factors):
    c, z, y, x = shape
    dx, dy, dz = factors
    return (c, ceil_div(z, dz), ceil_div(y, dy), ceil_div(x, dx))


def block_values(arr, t, z, y, x, factors, complete):
    """Values of the source block of output voxel (t,z,y,x).
    complete = None: truncate at the border; "edge": replicate the edge voxel;
    a number: use it for positions outside the array."""
    dx, dy, dz = factors
    _, Z, Y, X = len(arr), len(arr[0]), len(arr[0][0]), len(arr[0][0][0])
    vals = []
    for kz in range(z * dz, z * dz + dz):
        for ky in range(y * dy, y * dy + dy):
            for kx in range(x * dx, x * dx + dx):
                inside = kz < Z and ky < Y and kx < X
                if inside:
                    vals.append(arr[t][kz][ky][kx])
                elif complete is None:
                    continue
                elif complete == "edge":
                    vals.append(arr[t][min(kz, Z - 1)][min(ky, Y - 1)][min(kx, X - 1)])
                else:
                    vals.append(complete)
    return vals


def average_exact(vals, dtype_name):
    """-> (exact mean as Fraction, expected stored value for integer dtypes or None)"""
    mean = sum(Fraction(v) for v in vals) / len(vals)
    if dtype_name in INT_RANGE:
        lo, hi = INT_RANGE[dtype_name]
        return mean, max(lo, min(hi, round_half_even(mean)))
    return mean, None


def majority(vals):
    cnt = Counter(vals)
    best = max(cnt.values())
    return min(v for v, n in cnt.items() if n == best)
