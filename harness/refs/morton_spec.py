"""Compressed Morton code and shard routing, written from the Neuroglancer specification
(precomputed/volume.md "Compressed Morton code", precomputed/sharded.md) with plain Python
integers.  Shares no code with the repository."""


def bits_per_axis(grid):
    # number of bits needed to represent indices 0 .. g-1
    return [(g - 1).bit_length() for g in grid]


def compressed_morton(grid, pos):
    nb = bits_per_axis(grid)
    code = 0
    j = 0
    for i in range(max(nb) if nb else 0):
        for dim in range(3):
            if i < nb[dim]:
                code |= ((pos[dim] >> i) & 1) << j
                j += 1
    return code


def route(chunk_id, preshift_bits, minishard_bits, shard_bits):
    """-> (shard number, minishard number, file stem) for the identity hash."""
    shifted = (chunk_id & 0xFFFFFFFFFFFFFFFF) >> preshift_bits
    minishard = shifted & ((1 << minishard_bits) - 1)
    shard = (shifted >> minishard_bits) & ((1 << shard_bits) - 1)
    digits = -(-shard_bits // 4)
    stem = format(shard, "x").rjust(digits, "0")
    return shard, minishard, stem
