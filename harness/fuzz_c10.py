"""Coverage-guided tier of C10 (thorough): atheris/libFuzzer drives one decoder.
  python -m harness.fuzz_c10 <target> <corpus_dir> <artifact_dir> [libFuzzer options]
target = enc:dtype:channels:X,Y,Z[:bx,by,bz]   (enc in raw|cseg|jpeg)
The monitor is the same as in the structured tier: only InvalidFormatError or an array of the
requested shape/dtype are acceptable; anything else crashes the fuzzer, which writes the
offending input to <artifact_dir>."""
import os
import sys

import atheris

with atheris.instrument_imports(include=["neuroglancer_scripts"]):
    from neuroglancer_scripts import chunk_encoding  # noqa: F401
    from neuroglancer_scripts import _compressed_segmentation, _jpeg  # noqa: F401

import numpy as np  # noqa: E402


class Misbehaviour(Exception):
    pass


def make(target):
    parts = target.split(":")
    enc, dt, nch = parts[0], parts[1], int(parts[2])
    size = tuple(int(x) for x in parts[3].split(","))
    if enc == "raw":
        e = chunk_encoding.RawChunkEncoder(dt, nch)
    elif enc == "cseg":
        e = chunk_encoding.CompressedSegmentationEncoder(
            dt, nch, [int(x) for x in parts[4].split(",")])
    else:
        e = chunk_encoding.JpegChunkEncoder("uint8", nch)
    return e, size, (nch, size[2], size[1], size[0]), np.dtype(dt)


def main():
    target, corpus, artifacts = sys.argv[1:4]
    enc, size, shape, dt = make(target)
    IFE = chunk_encoding.InvalidFormatError

    def one(data):
        try:
            r = enc.decode(data, size)
        except IFE:
            return
        if r.shape != shape or r.dtype != dt:
            raise Misbehaviour(f"returned {r.shape} {r.dtype}")

    argv = [sys.argv[0], corpus, f"-artifact_prefix={artifacts}/", "-max_len=4096",
            "-timeout=60", "-print_final_stats=1"] + sys.argv[4:]
    atheris.Setup(argv, one)
    atheris.Fuzz()


if __name__ == "__main__":
    main()
