"""Shared workload machinery for the sharded-storage checks (C04, C05, C03, C14 ...)."""
import hashlib
import json
import os
import random

from harness.refs import morton_spec


def gen_config(rnd, tier, directed=None):
    """A sharded dataset configuration (JSON-serialisable)."""
    if directed:
        return dict(directed)
    grid = [rnd.choice([1, 1, 2, 3, 4, 5, 6]) for _ in range(3)]
    if rnd.random() < 0.1:
        grid = [rnd.choice([7, 8, 9]), rnd.choice([1, 2]), rnd.choice([1, 2, 3])]
        rnd.shuffle(grid)
    chunk = rnd.choice([1, 2, 2, 3, 4])
    hi = 4 if tier == "quick" else 5
    bits = [rnd.randint(0, hi) for _ in range(3)]  # minishard, shard, preshift
    r = rnd.random()
    if r < 0.04:
        bits = rnd.choice([[0, 70, 0], [2, 64, 1], [1, 63, 2], [0, 0, 64], [5, 62, 0],
                           [3, 3, 60], [0, 62, 3]])
    elif r < 0.12:
        bits = [0, 0, 0]
    return {
        "grid": grid, "chunk": chunk,
        "rem": [rnd.randrange(chunk) for _ in range(3)],
        "minishard_bits": bits[0], "shard_bits": bits[1], "preshift_bits": bits[2],
        "minishard_index_encoding": rnd.choice(["raw", "gzip"]),
        "data_encoding": rnd.choice(["raw", "gzip"]),
        "data_type": rnd.choice(["uint8", "uint8", "uint16", "uint32"]),
        "num_channels": rnd.choice([1, 1, 2]),
        # the two encoding members are optional in the specification (default "raw"):
        # hand-written and third-party infos leave them out
        "omit_default_keys": rnd.random() < 0.3,
    }


def gen_config_large(rnd):
    """A large grid (identifiers up to 2^36) whose sharding bits cover the whole identifier,
    so that every minishard holds one group of 2^preshift adjacent identifiers: far-apart
    chunks can be stored without the writer having to fill millions of gaps."""
    e = [rnd.randint(3, 12) for _ in range(3)]
    huge = rnd.random()
    if huge < 0.35:
        e = [rnd.randint(11, 12) for _ in range(3)]     # identifiers beyond 2^32
    elif huge < 0.6:
        # identifiers beyond 2^53 (not exactly representable in a float64) up to 2^63
        e = [rnd.randint(18, 21) for _ in range(3)]
    grid = [rnd.choice([2 ** x, 2 ** x - 1, 2 ** x - rnd.randint(1, 2 ** (x - 1))])
            for x in e]
    total = sum(morton_spec.bits_per_axis(grid))
    pre = rnd.randint(0, 3)
    rest = max(0, total - pre)
    mini = rnd.randint(0, min(6, rest))
    shard = rest - mini + rnd.randint(0, max(0, min(3, 64 - total)))
    return {
        "grid": grid, "chunk": rnd.choice([1, 2]), "rem": [0, 0, 0],
        "minishard_bits": mini, "shard_bits": shard, "preshift_bits": pre,
        "minishard_index_encoding": rnd.choice(["raw", "gzip"]),
        "data_encoding": rnd.choice(["raw", "gzip"]),
        "data_type": rnd.choice(["uint8", "uint16"]), "num_channels": 1, "large": True,
    }


def gen_subset_large(cfg, rnd, n=24):
    """Positions spread over the whole grid, taken in groups of adjacent identifiers."""
    out = set()
    gx, gy, gz = cfg["grid"]
    corners = [(0, 0, 0), (gx - 1, gy - 1, gz - 1), (gx - 1, 0, 0), (0, gy - 1, gz - 1)]
    for c in corners:
        out.add(c)
    while len(out) < n:
        p = (rnd.randrange(gx), rnd.randrange(gy), rnd.randrange(gz))
        out.add(p)
        if rnd.random() < 0.5:   # a neighbour (often the same preshift group)
            q = (min(gx - 1, p[0] ^ 1), p[1], p[2])
            out.add(q)
    return sorted(out)


def sizes_of(cfg):
    return [(g - 1) * cfg["chunk"] + 1 + r for g, r in zip(cfg["grid"], cfg["rem"])]


def sharding_of(cfg):
    out = {"@type": "neuroglancer_uint64_sharded_v1", "hash": "identity",
           "minishard_bits": cfg["minishard_bits"], "shard_bits": cfg["shard_bits"],
           "preshift_bits": cfg["preshift_bits"],
           "minishard_index_encoding": cfg["minishard_index_encoding"],
           "data_encoding": cfg["data_encoding"]}
    if cfg.get("omit_default_keys"):
        for k in ("minishard_index_encoding", "data_encoding"):
            if out[k] == "raw":
                del out[k]
    return out


def info_of(cfg, key="s0", sharded=True, encoding="raw"):
    scale = {"key": key, "size": sizes_of(cfg), "chunk_sizes": [[cfg["chunk"]] * 3],
             "resolution": [1, 1, 1], "voxel_offset": [0, 0, 0], "encoding": encoding}
    if encoding == "compressed_segmentation":
        scale["compressed_segmentation_block_size"] = [2, 2, 2]
    if sharded:
        scale["sharding"] = sharding_of(cfg)
    return {"type": "image", "data_type": cfg["data_type"],
            "num_channels": cfg["num_channels"], "scales": [scale]}


def all_positions(cfg):
    gx, gy, gz = cfg["grid"]
    return [(x, y, z) for x in range(gx) for y in range(gy) for z in range(gz)]


def coords_of(cfg, pos):
    c = cfg["chunk"]
    sz = sizes_of(cfg)
    out = []
    for p, s in zip(pos, sz):
        out += [p * c, min((p + 1) * c, s)]
    return tuple(out)


def cmc_of(cfg, pos):
    return morton_spec.compressed_morton(cfg["grid"], pos)


def minishard_groups(cfg, positions):
    """positions grouped by (shard, minishard), each group sorted by chunk id"""
    groups = {}
    for p in positions:
        cid = cmc_of(cfg, p)
        s, m, _ = morton_spec.route(cid, cfg["preshift_bits"], cfg["minishard_bits"],
                                    cfg["shard_bits"])
        groups.setdefault((s, m), []).append((cid, p))
    for g in groups.values():
        g.sort()
    return groups


def gen_subset(cfg, rnd, kind=None):
    """-> (kind, list of positions).  Kinds aim at gaps at the start / middle / end of a
    minishard's id sequence."""
    allp = all_positions(cfg)
    kind = kind or rnd.choice(["dense", "dense", "sparse", "single", "high", "gap_start",
                               "gap_middle", "gap_end", "half"])
    if kind == "dense" or len(allp) == 1:
        return kind, allp
    if kind == "single":
        return kind, [rnd.choice(allp)]
    if kind == "sparse":
        k = max(1, len(allp) // rnd.choice([3, 5, 8]))
        return kind, rnd.sample(allp, k)
    if kind == "half":
        return kind, rnd.sample(allp, max(1, len(allp) // 2))
    byid = sorted(allp, key=lambda p: cmc_of(cfg, p))
    if kind == "high":
        return kind, byid[len(byid) // 2:]
    groups = list(minishard_groups(cfg, allp).values())
    drop = set()
    for g in groups:
        if len(g) < 2:
            continue
        if kind == "gap_start":
            drop.add(g[0][1])
        elif kind == "gap_end":
            drop.add(g[-1][1])
        elif kind == "gap_middle" and len(g) >= 3:
            drop.add(g[rnd.randrange(1, len(g) - 1)][1])
    keep = [p for p in allp if p not in drop]
    return kind, keep or allp


def gap_profile(cfg, positions):
    """Which kinds of holes the stored subset leaves in the id sequences of the populated
    minishards (ids are consecutive integers of the minishard's own enumeration)."""
    allg = minishard_groups(cfg, all_positions(cfg))
    got = minishard_groups(cfg, positions)
    prof = {"start": 0, "middle": 0, "end": 0, "empty_minishard_below_populated": 0,
            "max_chunks_in_minishard": 0}
    for key, g in got.items():
        full = [cid for cid, _ in allg[key]]
        have = {cid for cid, _ in g}
        prof["max_chunks_in_minishard"] = max(prof["max_chunks_in_minishard"], len(g))
        first, last = min(have), max(have)
        # ids of the minishard's enumeration below the first stored one also count
        if first != full[0] or _first_id_of_minishard(cfg, key) < first:
            prof["start"] += 1
        if any(c not in have for c in full if first < c < last) or \
                _has_nongrid_id_between(cfg, key, first, last, set(full)):
            prof["middle"] += 1
        if last != full[-1]:
            prof["end"] += 1
    shards = {}
    for (s, m) in got:
        shards.setdefault(s, set()).add(m)
    for s, ms in shards.items():
        if any(m2 not in ms for m2 in range(max(ms))):
            prof["empty_minishard_below_populated"] += 1
    return prof


def _first_id_of_minishard(cfg, key):
    s, m = key
    return ((s << cfg["minishard_bits"]) | m) << cfg["preshift_bits"]


def _has_nongrid_id_between(cfg, key, first, last, grid_ids):
    if last - first > 4096:
        return True
    pre, mb, sb = cfg["preshift_bits"], cfg["minishard_bits"], cfg["shard_bits"]
    for cid in range(first + 1, last):
        s, m, _ = morton_spec.route(cid, pre, mb, sb)
        if (s, m) == key and cid not in grid_ids:
            return True
    return False


def chunk_array(np, cfg, pos, salt=0):
    """Deterministic, position-coded content for the chunk at grid position pos."""
    x0, x1, y0, y1, z0, z1 = coords_of(cfg, pos)
    shape = (cfg["num_channels"], z1 - z0, y1 - y0, x1 - x0)
    dt = np.dtype(cfg["data_type"])
    seed = int(hashlib.sha256(json.dumps([pos, salt]).encode()).hexdigest()[:8], 16)
    g = np.random.default_rng(seed)
    return g.integers(0, np.iinfo(dt).max, size=shape, dtype=dt, endpoint=True)


def open_writer(path, cfg, strategy, encoding="raw"):
    """-> (PrecomputedIO on a fresh ShardedFileAccessor, accessor).  The info file is written
    through the accessor itself."""
    from neuroglancer_scripts import precomputed_io, sharded_file_accessor
    kwargs = {} if strategy is None else {"strategy": strategy}
    acc = sharded_file_accessor.ShardedFileAccessor(path, **kwargs)
    info = info_of(cfg, encoding=encoding)
    pio = precomputed_io.get_IO_for_new_dataset(info, acc, overwrite_info=True)
    return pio, acc


def tree_digest(path, suffix=None):
    h = hashlib.sha256()
    names = []
    for root, _dirs, files in os.walk(path):
        for f in files:
            if suffix is None or f.endswith(suffix):
                names.append(os.path.relpath(os.path.join(root, f), path))
    for n in sorted(names):
        with open(os.path.join(path, n), "rb") as f:
            h.update(n.encode() + b"\0" + hashlib.sha256(f.read()).digest())
    return h.hexdigest(), sorted(names)


def other_filesystem_dir(prefix):
    """A fresh directory on a file system OTHER than the one that holds the temporary
    directory (tmpfs /dev/shm when present), or None.  Code that builds a file in TMPDIR and
    renames it into the dataset only works when both are on one file system."""
    import tempfile
    cand = "/dev/shm"
    try:
        if os.path.isdir(cand) and os.access(cand, os.W_OK) and \
                os.stat(cand).st_dev != os.stat(tempfile.gettempdir()).st_dev:
            return tempfile.mkdtemp(
                prefix=f"ngsv{os.environ.get('NGS_VERIF_RUN_ID', 'x')}-{prefix}", dir=cand)
    except OSError:
        pass
    return None
